// Node-level monitors under the frozen clock, part 1:
//   C01 chunk retrievable exactly while live (node: fetch/export/peer request/listing/tick)
//   C02 every lifetime inside the sanitised TTL window
//   C03 state learned from a manifest never outlives it
//   C05 cleanup tick removes all expired state, each expiry reported once
//   C11 stored content round-trips, tampered replicas never accepted
#include <algorithm>
#include <map>
#include <set>

#include "common/gen_manifest.hpp"
#include "common/hx.hpp"
#include "common/node_fx.hpp"
#include "common/ref_crypto.hpp"
#include "common/vclock.hpp"
#include "ephemeralnet/crypto/Sha256.hpp"
#include "tu_cli.hpp"

using namespace ephemeralnet;
using hx::Ctx;
using hx::J;
using hx::Rng;
using std::chrono::nanoseconds;
using std::chrono::seconds;

namespace {

constexpr std::int64_t NS = 1'000'000'000LL;

std::int64_t clampi(std::int64_t v, std::int64_t lo, std::int64_t hi) { return v < lo ? lo : (v > hi ? hi : v); }

Config base_config(Rng& r) {
    Config cfg{};
    cfg.identity_seed = static_cast<std::uint32_t>(r.next());
    cfg.announce_pow_difficulty = 0;
    cfg.handshake_pow_difficulty = 0;
    cfg.store_pow_difficulty = 0;
    cfg.nat_stun_enabled = false;
    cfg.relay_enabled = false;
    cfg.shard_threshold = 2;
    cfg.shard_total = 3;
    return cfg;
}

void advance_towards(Rng& r, const std::vector<std::int64_t>& deadlines, Ctx& c) {
    const auto k = r.below(8);
    const auto now = fx::steady_ns();
    std::int64_t target = now;
    std::vector<std::int64_t> future;
    for (auto d : deadlines) if (d > now) future.push_back(d);
    if (k == 0) target = now;
    else if (k == 1) target = now + 1;
    else if (k <= 5 && !future.empty()) {
        const auto d = future[r.below(future.size())];
        if (k == 2) target = d - 1;
        else if (k == 3) { target = d; c.note("clock.advance-exactly-to-deadline"); }
        else if (k == 4) target = d + 1;
        else target = now + static_cast<std::int64_t>(r.below(static_cast<std::uint64_t>(d - now) + 1));
    } else {
        target = now + static_cast<std::int64_t>(r.below(r.chance(1, 2) ? 3 * NS : 200 * NS));
    }
    if (target > now) vclk::advance(nanoseconds(target - now));
}

// ------------------------------------------------------------------------------------ C01
struct M01 { std::vector<std::uint8_t> payload, cipher; std::int64_t deadline; };

void c01_case(Ctx& c, Rng& r) {
    Config cfg = base_config(r);
    const std::int64_t mn = 1 + static_cast<std::int64_t>(r.below(20));
    const std::int64_t mx = mn + static_cast<std::int64_t>(r.below(r.chance(1, 2) ? 30 : 4000));
    cfg.min_manifest_ttl = seconds(mn);
    cfg.max_manifest_ttl = seconds(mx);
    cfg.default_chunk_ttl = seconds(r.below(static_cast<std::uint64_t>(mx + 10)));
    cfg.cleanup_interval = seconds(1 + r.below(60));
    cfg.upload_max_parallel_transfers = 0;
    cfg.upload_max_transfers_per_peer = 0;
    const std::int64_t dflt = clampi(cfg.default_chunk_ttl.count(), mn, mx);
    fx::NodeFx f(fx::peer_id_n(1, 0x77), cfg);
    auto& peer = f.add_peer(fx::peer_id_n(2), r);
    std::map<unsigned, M01> model;
    const unsigned nids = 1 + static_cast<unsigned>(r.below(4));
    const auto nops = 10 + r.below(50);
    std::uint64_t sig = nids;
    for (std::uint64_t op = 0; op < nops; ++op) {
        const auto k = r.below(14);
        const unsigned idn = static_cast<unsigned>(r.below(nids));
        const auto id = fx::chunk_id_n(idn);
        const auto key = chunk_id_to_string(id);
        const auto mit = model.find(idn);
        const auto now = fx::steady_ns();
        const bool live = mit != model.end() && now < mit->second.deadline;
        const bool at_deadline = mit != model.end() && now == mit->second.deadline;
        auto tag = [&](const char* what) { c.note(std::string(what) + (live ? ".live" : ".dead")); if (at_deadline) c.note(std::string(what) + ".exactly-at-deadline"); };
        if (k <= 2) {
            static const std::int64_t tt[] = {0, -1, 1, 2, 5, 30, 100, 100000};
            const std::int64_t ttl = r.chance(1, 2) ? tt[r.below(8)] : static_cast<std::int64_t>(r.below(static_cast<std::uint64_t>(mx + 20)));
            const auto payload = r.bytes(r.below(4) == 0 ? 0 : 1 + r.below(200));
            f.node->store_chunk(id, payload, seconds(ttl));
            const std::int64_t eff = clampi(ttl > 0 ? ttl : dflt, mn, mx);
            M01 m{payload, f.node->chunk_store_.chunks_.at(key).data, fx::steady_ns() + eff * NS};
            model[idn] = std::move(m);
            c.note(mit == model.end() ? "ops.store" : "ops.overwrite");
            sig = hx::mix(sig, 1);
        } else if (k <= 4) {
            const auto got = f.node->fetch_chunk(id);
            tag("reads.fetch");
            if (live && (!got || *got != mit->second.payload)) c.violation("C01:fetch:live-chunk-not-returned", J().kv("op", op).kv("remaining_ns", mit->second.deadline - now).kv("has", got.has_value()).str());
            if (!live && got) c.violation("C01:fetch:expired-chunk-served", J().kv("op", op).kv("past_ns", mit == model.end() ? -1 : now - mit->second.deadline).str());
            sig = hx::mix(sig, 2 + live);
        } else if (k == 5) {
            const auto got = f.node->export_chunk_record(id);
            tag("reads.export");
            if (live && (!got || got->data != mit->second.cipher)) c.violation("C01:export:live-chunk-not-returned", J().kv("op", op).str());
            if (!live && got) c.violation("C01:export:expired-chunk-served", J().kv("op", op).kv("past_ns", mit == model.end() ? -1 : now - mit->second.deadline).str());
            sig = hx::mix(sig, 4 + live);
        } else if (k <= 7) {
            // peer request over the socketpair session
            protocol::Message m{};
            m.type = protocol::MessageType::Request;
            m.payload = protocol::RequestPayload{id, peer.id};
            f.deliver(peer, m);
            const auto frames = f.drain(peer);
            tag("reads.peer-request");
            bool served = false;
            for (auto& fr : frames) {
                if (!fr.message) { c.violation("harness:C01:undecodable-frame", "{}"); continue; }
                if (fr.message->type == protocol::MessageType::Chunk) {
                    const auto& cp = std::get<protocol::ChunkPayload>(fr.message->payload);
                    if (cp.chunk_id != id) continue;
                    served = true;
                    if (!live) c.violation("C01:peer-request:expired-chunk-served", J().kv("op", op).kv("past_ns", mit == model.end() ? -1 : now - mit->second.deadline).str());
                    else if (cp.data != mit->second.cipher) c.violation("C01:peer-request:wrong-bytes", J().kv("op", op).str());
                }
            }
            if (served) {
                c.note("reads.peer-request.served");
                protocol::Message ack{};
                ack.type = protocol::MessageType::Acknowledge;
                ack.payload = protocol::AcknowledgePayload{id, peer.id, true};
                f.deliver(peer, ack);
                f.drain(peer);
            } else if (live && mit->second.deadline - now >= (mn + 1) * NS) {
                // with at least min TTL of life left a live chunk must be served to a peer
                c.violation("C01:peer-request:live-chunk-refused", J().kv("op", op).kv("remaining_ns", mit->second.deadline - now).str());
            }
            sig = hx::mix(sig, 6 + live + 2 * served);
        } else if (k == 8) {
            const auto listed = f.node->stored_chunks();
            c.note("reads.listings");
            std::set<std::string> names;
            for (auto& e : listed) names.insert(e.key);
            for (auto& [n, m] : model) {
                const auto kk = chunk_id_to_string(fx::chunk_id_n(n));
                const bool lv = now < m.deadline;
                if (lv && !names.count(kk)) c.violation("C01:list:live-chunk-missing", J().kv("op", op).str());
                if (!lv && names.count(kk)) { c.violation("C01:list:expired-chunk-listed", J().kv("op", op).kv("past_ns", now - m.deadline).str()); }
                if (!lv) c.note("reads.listings-with-expired-unswept-chunk");
            }
            sig = hx::mix(sig, 10);
        } else if (k == 9) {
            f.node->tick();
            f.drain(peer);
            c.note("ops.tick");
            sig = hx::mix(sig, 11);
        } else if (k == 10) {
            const auto got = f.node->chunk_store_.get(id);
            tag("reads.store-get");
            if (live && (!got || *got != mit->second.cipher)) c.violation("C01:store:live-chunk-not-returned", J().kv("op", op).str());
            if (!live && got) c.violation("C01:store:expired-chunk-served", J().kv("op", op).str());
            sig = hx::mix(sig, 12 + live);
        } else {
            std::vector<std::int64_t> ds;
            for (auto& [_, m] : model) ds.push_back(m.deadline);
            advance_towards(r, ds, c);
            sig = hx::mix(sig, 14);
        }
    }
    c.sig(sig);
    if (c.cur_case % 199 == 0) c.sample(J().kv("min_ttl", mn).kv("max_ttl", mx).kv("default", dflt).kv("ids", nids).kv("ops", nops).str());
}
HX_PROPERTY("C01", c01_case);

// ------------------------------------------------------------------------------------ C02
std::int64_t weird_seconds(Rng& r) {
    static const std::int64_t b[] = {INT64_MIN, INT64_MIN + 1, -86400, -1, 0, 1, 2, 4, 5, 6, 29, 30, 31, 59, 3599, 3600, 3601,
                                     21600, 86399, 86400, 86401, 1000000000LL, INT64_MAX - 1, INT64_MAX};
    const auto k = r.below(10);
    if (k < 6) return b[r.below(sizeof b / sizeof b[0])];
    if (k < 8) return static_cast<std::int64_t>(r.below(100000));
    if (k == 8) return -static_cast<std::int64_t>(r.below(100000));
    return static_cast<std::int64_t>(r.next());
}

void c02_case(Ctx& c, Rng& r) {
    Config cfg = base_config(r);
    cfg.default_chunk_ttl = seconds(weird_seconds(r));
    cfg.min_manifest_ttl = seconds(weird_seconds(r));
    cfg.max_manifest_ttl = seconds(weird_seconds(r));
    cfg.key_rotation_interval = seconds(weird_seconds(r));
    cfg.announce_min_interval = seconds(weird_seconds(r));
    cfg.announce_burst_window = seconds(weird_seconds(r));
    cfg.announce_burst_limit = r.chance(1, 3) ? 0 : static_cast<std::size_t>(r.below(10));
    cfg.announce_pow_difficulty = r.byte();
    cfg.handshake_pow_difficulty = r.byte();
    cfg.store_pow_difficulty = r.byte();
    const auto desc = [&] {
        return J().kv("default", cfg.default_chunk_ttl.count()).kv("min", cfg.min_manifest_ttl.count()).kv("max", cfg.max_manifest_ttl.count())
            .kv("rotation", cfg.key_rotation_interval.count()).kv("pow", std::to_string(cfg.announce_pow_difficulty) + "/" + std::to_string(cfg.handshake_pow_difficulty) + "/" + std::to_string(cfg.store_pow_difficulty));
    };
    fx::NodeFx f(fx::peer_id_n(1, 0x66), cfg);
    const auto& e = f.node->config();
    const auto mn = e.min_manifest_ttl.count(), mx = e.max_manifest_ttl.count(), df = e.default_chunk_ttl.count();
    c.note("config.sanitised");
    if (!(1 <= mn && mn <= mx && mx <= 86400)) c.violation("C02:config:ttl-window-not-sanitised", desc().kv("eff_min", mn).kv("eff_max", mx).str());
    if (!(mn <= df && df <= mx)) c.violation("C02:config:default-ttl-outside-window", desc().kv("eff_default", df).str());
    if (!(5 <= e.key_rotation_interval.count() && e.key_rotation_interval.count() <= 3600)) c.violation("C02:config:rotation-outside-5s-1h", desc().kv("eff", e.key_rotation_interval.count()).str());
    if (f.node->key_manager_.rotation_interval_.count() < 5 || f.node->key_manager_.rotation_interval_.count() > 3600) c.violation("C02:config:key-manager-rotation-outside-5s-1h", desc().str());
    if (e.announce_pow_difficulty > 24 || e.handshake_pow_difficulty > 24 || e.store_pow_difficulty > 24) c.violation("C02:config:pow-above-24", desc().str());
    if (mn < 1 || mx < mn) return;   // lifetimes below are meaningless without a window
    const int nstores = c.thorough ? 8 : 4;
    for (int i = 0; i < nstores; ++i) {
        const std::int64_t req = weird_seconds(r);
        // one store in three repeats an id stored earlier in this case (same content uploaded again): the lifetimes
        // created for *this* store are what counts, whatever the earlier store left behind
        const bool again = i > 0 && r.chance(1, 3);
        const auto id = fx::chunk_id_n(again ? static_cast<unsigned>(r.below(static_cast<std::uint64_t>(i))) : static_cast<unsigned>(i));
        if (again) c.note("lifetimes.repeated-stores");
        const auto key = chunk_id_to_string(id);
        const auto s0 = fx::steady_ns(), w0 = fx::system_ns();
        const auto manifest = f.node->store_chunk(id, r.bytes(16), seconds(req));
        const std::int64_t want = clampi(req > 0 ? req : df, mn, mx);
        c.note("lifetimes.stores");
        auto check = [&](const char* what, std::int64_t life_ns) {
            c.note("lifetimes.checked");
            if (life_ns != want * NS) {
                const bool inside = life_ns >= mn * NS && life_ns <= mx * NS;
                c.violation(std::string("C02:lifetime:") + what + (inside ? ":not-the-clamped-request" : ":outside-window"),
                            desc().kv("requested", req).kv("expected_s", want).kv("got_ns", life_ns).str());
            }
        };
        const auto cit = f.node->chunk_store_.chunks_.find(key);
        if (cit == f.node->chunk_store_.chunks_.end()) { c.violation("C02:lifetime:chunk-record-missing", desc().str()); continue; }
        check("chunk-record", cit->second.expires_at.time_since_epoch().count() - s0);
        check("manifest-expiry", manifest.expires_at.time_since_epoch().count() - w0);
        const auto sit = f.node->dht_.shard_table_.find(key);
        if (sit == f.node->dht_.shard_table_.end()) c.violation("C02:lifetime:shard-record-missing", desc().str());
        else check("shard-record", sit->second.expires_at.time_since_epoch().count() - s0);
        const auto lit = f.node->dht_.table_.find(key);
        bool self_found = false;
        if (lit != f.node->dht_.table_.end()) {
            for (auto& h : lit->second.holders) if (h.id == f.node->id()) { self_found = true; check("self-announcement", h.expires_at.time_since_epoch().count() - s0); }
        }
        if (!self_found) c.violation("C02:lifetime:self-announcement-missing", desc().str());
        const auto cached = f.node->manifest_cache_.find(key);
        if (cached != f.node->manifest_cache_.end()) check("cached-manifest", cached->second.expires_at.time_since_epoch().count() - w0);
        vclk::advance(nanoseconds(static_cast<std::int64_t>(r.below(5 * NS))));
    }
    c.sig(hx::mix(hx::mix(static_cast<std::uint64_t>(mn), static_cast<std::uint64_t>(mx)), hx::mix(static_cast<std::uint64_t>(df), static_cast<std::uint64_t>(e.key_rotation_interval.count()))));
    if (c.cur_case % 499 == 0) c.sample(desc().kv("eff_min", mn).kv("eff_max", mx).kv("eff_default", df).str());
}
HX_PROPERTY("C02", c02_case);

// ------------------------------------------------------------------------------------ derived-state snapshot (C03, C05)
std::string derived_snapshot(Node& n) {
    std::map<std::string, std::string> m;
    for (auto& [k, v] : n.manifest_cache_) m["manifest/" + k] = std::to_string(v.expires_at.time_since_epoch().count()) + "/" + std::to_string(v.shards.size());
    for (auto& [k, v] : n.dht_.shard_table_) m["shards/" + k] = std::to_string(v.expires_at.time_since_epoch().count()) + "/" + std::to_string(v.shards.size());
    for (auto& [k, v] : n.dht_.table_) {
        std::string s = std::to_string(v.expires_at.time_since_epoch().count());
        for (auto& h : v.holders) s += "|" + peer_id_to_string(h.id).substr(0, 8) + "@" + h.address + "/" + std::to_string(h.expires_at.time_since_epoch().count());
        m["locator/" + k] = s;
    }
    for (auto& [k, v] : n.chunk_store_.chunks_) m["chunk/" + k] = std::to_string(v.expires_at.time_since_epoch().count()) + "/" + std::to_string(v.data.size());
    for (auto& [k, v] : n.pending_chunk_fetches_) m["fetch/" + k] = std::to_string(v.manifest_expires.time_since_epoch().count());
    for (auto& [k, v] : n.swarm_plans_) m["plan/" + k] = std::to_string(v.assignments.size());
    std::string out;
    for (auto& [k, v] : m) out += k + "=" + v + ";";
    return out;
}

// ------------------------------------------------------------------------------------ C03
void c03_case(Ctx& c, Rng& r) {
    Config cfg = base_config(r);
    const std::int64_t mn = 1 + static_cast<std::int64_t>(r.below(60));
    const std::int64_t mx = mn + static_cast<std::int64_t>(r.below(7200));
    cfg.min_manifest_ttl = seconds(mn);
    cfg.max_manifest_ttl = seconds(mx);
    cfg.default_chunk_ttl = seconds(mn);
    cfg.announce_min_interval = seconds(1);
    cfg.announce_burst_limit = 1000;
    fx::NodeFx f(fx::peer_id_n(1, 0x55), cfg);
    auto& peer = f.add_peer(fx::peer_id_n(2), r);
    // donor node produces genuine (manifest, ciphertext) pairs
    Config dcfg = base_config(r);
    dcfg.min_manifest_ttl = seconds(1);
    dcfg.max_manifest_ttl = seconds(86400);
    Node donor(fx::peer_id_n(9, 0x44), dcfg);

    // per chunk: latest bound any derived state may legitimately have (steady ns)
    std::map<std::string, std::int64_t> bound_steady;
    std::map<std::string, std::int64_t> bound_system;
    const auto narr = 4 + r.below(12);
    std::uint64_t sig = 0;
    for (std::uint64_t a = 0; a < narr; ++a) {
        const unsigned cn = static_cast<unsigned>(r.below(4));
        const auto id = fx::chunk_id_n(cn + 16 * static_cast<unsigned>(c.cur_case % 8));
        const auto key = chunk_id_to_string(id);
        const auto payload = r.bytes(1 + r.below(64));
        auto manifest = donor.store_chunk(id, payload, seconds(3600));
        const auto cipher = donor.chunk_store_.chunks_.at(key).data;
        // expiry relative to now
        const auto wnow = fx::system_ns(), snow = fx::steady_ns();
        const std::int64_t now_s = wnow / NS;
        static const std::int64_t fixed[] = {-100000, -1, 0, 1, 2};
        std::int64_t exp_s;
        const auto ek = r.below(16);
        // absolute instants far in the past, down to the smallest second the manifest codec can carry: "now - expiry" does
        // not fit into 64-bit nanoseconds there
        static const std::int64_t ancient[] = {-9223372036LL, -9223372035LL, -9000000000LL, -7500000000LL, -7400000000LL, -5000000000LL, -1LL, 0LL, 1LL};
        if (ek >= 14) exp_s = ancient[r.below(9)];
        else if (ek < 5) exp_s = now_s + fixed[ek];
        else if (ek == 5) exp_s = now_s + mn - 1;
        else if (ek == 6) exp_s = now_s + mn;
        else if (ek == 7) exp_s = now_s + mn + 1;
        else if (ek == 8) exp_s = now_s + mx + static_cast<std::int64_t>(r.range(-1, 1));
        else if (ek == 9) exp_s = now_s + 10 * mx + 5;
        else if (ek == 10) exp_s = now_s + 315360000;          // ten years
        else if (ek == 11) exp_s = 9223372036LL;               // largest representable second
        else exp_s = now_s + static_cast<std::int64_t>(r.below(static_cast<std::uint64_t>(mx + 100)));
        manifest.expires_at = std::chrono::system_clock::time_point{seconds(exp_s)};
        const auto uri = protocol::encode_manifest(manifest);
        const __int128 remaining_wide = static_cast<__int128>(exp_s) * NS - wnow;   // exp_s*NS fits (|exp_s| <= 9223372036), the difference may not
        const bool must_reject = remaining_wide <= 0 || remaining_wide < static_cast<__int128>(mn) * NS;
        const std::int64_t remaining_ns = remaining_wide > INT64_MAX ? INT64_MAX : (remaining_wide < INT64_MIN ? INT64_MIN : static_cast<std::int64_t>(remaining_wide));
        if (ek >= 14) c.note("arrivals.ancient-expiry");
        const auto before = derived_snapshot(*f.node);
        const auto kind = r.below(4);
        bool api_accept = false;
        std::uint32_t announced_ttl = 0;
        if (kind == 0) {
            api_accept = f.node->ingest_manifest(uri);
            c.note("arrivals.ingest");
        } else if (kind == 1) {
            protocol::Message m{};
            m.type = protocol::MessageType::Announce;
            protocol::AnnouncePayload ap{};
            ap.chunk_id = id;
            ap.peer_id = peer.id;
            ap.endpoint = "203.0.113.9:4000";
            static const std::uint32_t at[] = {0u, 1u, 5u, 3600u, 86400u, 0x7fffffffu, 0xffffffffu};
            announced_ttl = r.chance(1, 2) ? at[r.below(7)] : static_cast<std::uint32_t>(r.below(static_cast<std::uint64_t>(2 * mx + 10)));
            ap.ttl = seconds(announced_ttl);
            ap.manifest_uri = uri;
            if (r.chance(1, 2)) ap.assigned_shards = {manifest.shards[0].index};
            m.payload = ap;
            f.deliver(peer, m);
            f.drain(peer);
            vclk::advance(nanoseconds(1 * NS + 1));   // stay clear of the announce throttle
            api_accept = derived_snapshot(*f.node) != before;
            c.note("arrivals.announce");
        } else if (kind == 2) {
            api_accept = f.node->receive_chunk(uri, cipher).has_value();
            c.note("arrivals.replica");
        } else {
            (void)f.node->request_chunk(peer.id, "", 0, uri);
            f.drain(peer);
            api_accept = derived_snapshot(*f.node) != before;
            c.note("arrivals.fetch-request");
        }
        const auto after = derived_snapshot(*f.node);
        const auto desc = [&] { return J().kv("arrival", a).kv("kind", kind).kv("remaining_ns", remaining_ns).kv("min_ttl", mn).kv("max_ttl", mx).kv("announced_ttl", announced_ttl); };
        if (must_reject) {
            c.note("arrivals.must-reject");
            if (after != before) c.violation("C03:reject:expired-or-short-lived-manifest-changed-state:kind=" + std::to_string(kind), desc().kv("before", before.substr(0, 600)).kv("after", after.substr(0, 600)).str());
            if (api_accept && kind != 1 && kind != 3) c.violation("C03:reject:expired-or-short-lived-manifest-accepted:kind=" + std::to_string(kind), desc().str());
        } else if (after != before) {
            c.note("arrivals.accepted");
            if (remaining_ns > mx * NS) c.note("arrivals.accepted-far-future");
            // bound for this chunk: the manifest's own expiry and now + max TTL (kind 1 advanced the clock by 1s+1ns; bounds use arrival time)
            const std::int64_t b = std::min(snow + remaining_ns, snow + mx * NS);
            auto& bs = bound_steady[key];
            bs = std::max(bs, b);
            auto& bw = bound_system[key];
            bw = std::max(bw, exp_s * NS);
        }
        // every deadline derived for any chunk seen so far must respect its bound
        for (auto& [ck, bnd] : bound_steady) {
            auto viol = [&](const char* what, std::int64_t dl) {
                c.note("derived.deadlines-checked");
                if (dl > bnd) c.violation(std::string("C03:outlives-manifest:") + what, desc().kv("excess_ns", dl - bnd).str());
            };
            if (auto it = f.node->dht_.shard_table_.find(ck); it != f.node->dht_.shard_table_.end()) viol("key-shares", it->second.expires_at.time_since_epoch().count());
            if (auto it = f.node->chunk_store_.chunks_.find(ck); it != f.node->chunk_store_.chunks_.end()) viol("replica-chunk", it->second.expires_at.time_since_epoch().count());
            if (auto it = f.node->dht_.table_.find(ck); it != f.node->dht_.table_.end()) {
                viol("locator", it->second.expires_at.time_since_epoch().count());
                for (auto& h : it->second.holders) viol("provider-contact", h.expires_at.time_since_epoch().count());
            }
            if (auto it = f.node->pending_chunk_fetches_.find(ck); it != f.node->pending_chunk_fetches_.end()) {
                // a pending fetch carries the manifest's own (system-clock) expiry; it must not exceed the latest accepted one
                c.note("derived.deadlines-checked");
                const auto sys_dl = it->second.manifest_expires.time_since_epoch().count();
                if (sys_dl > bound_system[ck]) c.violation("C03:outlives-manifest:pending-fetch", desc().kv("excess_ns", sys_dl - bound_system[ck]).str());
            }
        }
        sig = hx::mix(sig, hx::mix(kind, hx::mix(ek, must_reject)));
        vclk::advance(nanoseconds(static_cast<std::int64_t>(r.below(3 * NS))));
        // a local lookup of a chunk the node holds, at a moment when the manifest it has cached for that chunk is expired or has
        // less than the minimum TTL left (a shorter-lived manifest replaced a longer one, the cleanup tick has not run yet): that
        // manifest must not change node state any more - in particular its key shares are not published again
        if (r.chance(1, 2)) {
            for (unsigned n = 0; n < 4; ++n) {
                const auto cid = fx::chunk_id_n(n + 16 * static_cast<unsigned>(c.cur_case % 8));
                const auto ck = chunk_id_to_string(cid);
                const auto mit = f.node->manifest_cache_.find(ck);
                if (mit == f.node->manifest_cache_.end() || !f.node->chunk_store_.chunks_.count(ck)) continue;
                const auto left = mit->second.expires_at.time_since_epoch().count() - fx::system_ns();
                if (left >= mn * NS) continue;
                const auto before = f.node->dht_.shard_table_.find(ck);
                const bool had = before != f.node->dht_.shard_table_.end();
                const std::int64_t had_until = had ? before->second.expires_at.time_since_epoch().count() : 0;
                (void)f.node->fetch_chunk(cid);
                c.note("lookups.with-expired-or-nearly-expired-cached-manifest");
                const auto after = f.node->dht_.shard_table_.find(ck);
                if (after != f.node->dht_.shard_table_.end() && (!had || after->second.expires_at.time_since_epoch().count() > had_until))
                    c.violation("C03:rejected-manifest:local-lookup-publishes-key-shares-of-expired-manifest",
                                J().kv("manifest_remaining_ns", left).kv("min_ttl", mn).kv("had_record", had).kv("extended_by_ns", after->second.expires_at.time_since_epoch().count() - had_until).str());
            }
        }
    }
    // "expires no later than": walk the bounds in time order; just past each bound (with a tick in between, as the
    // daemon does every second) nothing derived from that chunk's manifests may still be live or served
    std::vector<std::pair<std::int64_t, std::string>> order;
    for (auto& [ck, bnd] : bound_steady) order.emplace_back(bnd, ck);
    std::sort(order.begin(), order.end());
    for (auto& [bnd, ck] : order) {
        const auto now = fx::steady_ns();
        if (bnd + 1 > now) vclk::advance(nanoseconds(bnd + 1 - now));
        f.node->tick();
        f.drain(peer);
        c.note("derived.expiry-points-checked");
        const auto desc = [&](const char* what) { return J().kv("what", what).kv("past_bound_ns", fx::steady_ns() - bnd).kv("min_ttl", mn).kv("max_ttl", mx).str(); };
        ChunkId cid{};
        bool have_id = false;
        for (unsigned n = 0; n < 4 && !have_id; ++n) { cid = fx::chunk_id_n(n + 16 * static_cast<unsigned>(c.cur_case % 8)); have_id = chunk_id_to_string(cid) == ck; }
        // a pending fetch is bounded by the manifest's own expiry (it is not one of the capped lifetimes)
        if (f.node->pending_chunk_fetches_.count(ck) && fx::system_ns() > bound_system[ck])
            c.violation("C03:outlives-manifest:pending-fetch-still-queued-after-expiry", desc("pending-fetch"));
        if (have_id) {
            if (f.node->dht_.shard_record(cid).has_value()) c.violation("C03:outlives-manifest:key-shares-still-served-after-expiry", desc("key-shares"));
            if (f.node->export_chunk_record(cid).has_value()) c.violation("C03:outlives-manifest:replica-still-served-after-expiry", desc("replica"));
            if (!f.node->dht_.find_providers(cid).empty()) c.violation("C03:outlives-manifest:provider-contact-still-returned-after-expiry", desc("provider-contact"));
        }
    }
    // pending fetches: just past the manifest's own expiry (skipping expiries centuries away), after one tick, none may remain
    std::vector<std::pair<std::int64_t, std::string>> fetch_order;
    for (auto& [ck, st] : f.node->pending_chunk_fetches_) if (bound_system.count(ck) && bound_system[ck] - fx::system_ns() < 400LL * 86400 * NS) fetch_order.emplace_back(bound_system[ck], ck);
    std::sort(fetch_order.begin(), fetch_order.end());
    for (auto& [own_expiry, ck] : fetch_order) {
        const auto wnow = fx::system_ns();
        if (own_expiry + 1 > wnow) vclk::advance(nanoseconds(own_expiry + 1 - wnow));
        f.node->tick();
        f.drain(peer);
        c.note("derived.pending-fetch-expiry-points-checked");
        if (f.node->pending_chunk_fetches_.count(ck))
            c.violation("C03:outlives-manifest:pending-fetch-still-queued-after-expiry", J().kv("past_expiry_ns", fx::system_ns() - own_expiry).str());
    }
    c.sig(sig);
    if (c.cur_case % 199 == 0) c.sample(J().kv("min_ttl", mn).kv("max_ttl", mx).kv("arrivals", narr).str());
}
HX_PROPERTY("C03", c03_case);

// ------------------------------------------------------------------------------------ C05
void c05_case(Ctx& c, Rng& r) {
    Config cfg = base_config(r);
    const std::int64_t mn = 1 + static_cast<std::int64_t>(r.below(5));
    const std::int64_t mx = mn + 5 + static_cast<std::int64_t>(r.below(300));
    cfg.min_manifest_ttl = seconds(mn);
    cfg.max_manifest_ttl = seconds(mx);
    cfg.default_chunk_ttl = seconds(mn + 1);
    cfg.cleanup_interval = seconds(1);
    cfg.announce_min_interval = seconds(1);
    cfg.announce_burst_limit = 1000;
    cfg.swarm_rebalance_interval = seconds(1 + r.below(100));
    fx::NodeFx f(fx::peer_id_n(1, 0x33), cfg);
    auto& peer = f.add_peer(fx::peer_id_n(2), r);
    Config dcfg = base_config(r);
    dcfg.min_manifest_ttl = seconds(1);
    dcfg.max_manifest_ttl = seconds(86400);
    Node donor(fx::peer_id_n(9, 0x22), dcfg);

    struct Local { std::int64_t deadline; bool reported{false}; int reports{0}; };
    std::map<std::string, Local> locals;      // chunks stored locally (unique ids)
    std::vector<std::string> notifications;
    std::vector<std::pair<ChunkId, std::string>> local_uris;
    unsigned next_id = 0;
    const auto nops = 10 + r.below(50);
    std::uint64_t sig = 0;

    auto scan_after_cleanup = [&](std::uint64_t op) {
        const auto T = fx::steady_ns();
        const auto TW = fx::system_ns();
        Node& n = *f.node;
        c.note("cleanup.ticks-scanned");
        const auto desc = [&](const std::string& what) { return J().kv("op", op).kv("entry", what).str(); };
        for (auto& [k, v] : n.chunk_store_.chunks_) if (v.expires_at.time_since_epoch().count() <= T) c.violation("C05:after-tick:expired-chunk-held", desc(k));
        for (auto& [k, v] : n.dht_.table_) {
            if (v.expires_at.time_since_epoch().count() <= T) c.violation("C05:after-tick:expired-locator-held", desc(k));
            for (auto& h : v.holders) if (h.expires_at.time_since_epoch().count() <= T) c.violation("C05:after-tick:expired-provider-contact-held", desc(k));
            const bool has_self = std::any_of(v.holders.begin(), v.holders.end(), [&](const PeerContact& h) { return h.id == n.id(); });
            if (has_self && locals.count(k) && locals[k].deadline <= T) c.violation("C05:after-tick:own-announcement-not-withdrawn", desc(k));
        }
        for (auto& [k, v] : n.dht_.shard_table_) if (v.expires_at.time_since_epoch().count() <= T) c.violation("C05:after-tick:expired-key-shares-held", desc(k));
        for (auto& b : n.dht_.buckets_) for (auto& pc : b) if (pc.expires_at.time_since_epoch().count() <= T) c.violation("C05:after-tick:expired-routing-contact-held", desc(peer_id_to_string(pc.id)));
        for (auto& [k, v] : n.manifest_cache_) if (v.expires_at.time_since_epoch().count() <= TW) c.violation("C05:after-tick:expired-manifest-cached", desc(k));
        for (auto& [k, v] : n.swarm_plans_) {
            const auto mit = n.manifest_cache_.find(k);
            if (mit == n.manifest_cache_.end() || mit->second.expires_at.time_since_epoch().count() <= TW) c.violation("C05:after-tick:swarm-plan-for-expired-manifest", desc(k));
        }
        const auto audit = n.audit_ttl();
        if (!audit.expired_local_chunks.empty()) c.violation("C05:audit:expired-local-chunks", desc(audit.expired_local_chunks[0]));
        if (!audit.expired_locator_chunks.empty()) c.violation("C05:audit:expired-locators", desc(audit.expired_locator_chunks[0]));
        if (!audit.expired_contacts.empty()) c.violation("C05:audit:expired-contacts", desc(audit.expired_contacts[0]));
        for (auto& o : audit.orphan_announcements) if (locals.count(o) && locals[o].deadline <= T) c.violation("C05:audit:orphan-announcement-for-expired-chunk", desc(o));
        for (auto& note : n.drain_cleanup_notifications()) {
            notifications.push_back(note);
            c.note("cleanup.notifications");
            auto it = locals.find(note);
            if (it == locals.end()) { c.violation("C05:notify:unknown-chunk-reported", desc(note)); continue; }
            if (it->second.deadline > T) c.violation("C05:notify:live-chunk-reported", desc(note));
            if (++it->second.reports > 1) c.violation("C05:notify:expiry-reported-twice", desc(note));
        }
        for (auto& [k, l] : locals) if (l.deadline <= T && l.reports == 0) c.violation("C05:notify:expiry-never-reported", desc(k));
    };

    for (std::uint64_t op = 0; op <= nops; ++op) {
        const bool final_step = op == nops;
        const auto k = final_step ? 100 : r.below(12);
        if (k <= 2) {
            const auto id = fx::chunk_id_n(next_id++);
            const std::int64_t ttl = static_cast<std::int64_t>(r.below(static_cast<std::uint64_t>(mx + 5)));
            const auto stored_manifest = f.node->store_chunk(id, r.bytes(8 + r.below(40)), seconds(ttl));
            const std::int64_t eff = clampi(ttl > 0 ? ttl : clampi(cfg.default_chunk_ttl.count(), mn, mx), mn, mx);
            locals[chunk_id_to_string(id)] = Local{fx::steady_ns() + eff * NS};
            local_uris.emplace_back(id, protocol::encode_manifest(stored_manifest));
            c.note("ops.store");
            sig = hx::mix(sig, 1);
        } else if (k == 4 && !local_uris.empty() && r.chance(1, 2)) {
            // a peer announces a chunk this node stores itself: a second provider on the same locator, with its own lifetime
            const auto& [id, uri] = local_uris[r.below(local_uris.size())];
            protocol::Message m{};
            m.type = protocol::MessageType::Announce;
            protocol::AnnouncePayload ap{};
            ap.chunk_id = id; ap.peer_id = peer.id; ap.endpoint = "203.0.113.9:4000"; ap.ttl = seconds(1 + r.below(static_cast<std::uint64_t>(mx)));
            ap.manifest_uri = uri;
            m.payload = ap;
            f.deliver(peer, m);
            f.drain(peer);
            c.note("ops.announce-of-a-locally-stored-chunk");
            sig = hx::mix(sig, 9);
        } else if (k <= 4) {
            // manifest from elsewhere: ingest or announce (adds cached manifest, key shares, plan, provider contact)
            const auto id = fx::chunk_id_n(1000 + next_id++);
            auto manifest = donor.store_chunk(id, r.bytes(16), seconds(3600));
            const std::int64_t life = mn + static_cast<std::int64_t>(r.below(static_cast<std::uint64_t>(mx)));
            manifest.expires_at = std::chrono::system_clock::time_point{seconds(fx::system_ns() / NS + life)};
            const auto uri = protocol::encode_manifest(manifest);
            if (k == 3) {
                f.node->ingest_manifest(uri);
                c.note("ops.ingest");
            } else {
                protocol::Message m{};
                m.type = protocol::MessageType::Announce;
                protocol::AnnouncePayload ap{};
                ap.chunk_id = id; ap.peer_id = peer.id; ap.endpoint = "203.0.113.9:4000"; ap.ttl = seconds(r.below(static_cast<std::uint64_t>(mx)));
                ap.manifest_uri = uri;
                m.payload = ap;
                f.deliver(peer, m);
                f.drain(peer);
                c.note("ops.announce");
            }
            sig = hx::mix(sig, 2 + (k == 4));
        } else if (k <= 6) {
            // lookups of a local chunk, possibly between its deadline and the next tick
            if (!locals.empty()) {
                auto it = locals.begin();
                std::advance(it, static_cast<std::ptrdiff_t>(r.below(locals.size())));
                const auto idopt = [&]() { ChunkId cid{}; for (unsigned n = 0; n < next_id; ++n) { cid = fx::chunk_id_n(n); if (chunk_id_to_string(cid) == it->first) return cid; } return cid; }();
                const bool expired_unswept = it->second.deadline <= fx::steady_ns() && it->second.reports == 0;
                if (r.chance(1, 2)) (void)f.node->fetch_chunk(idopt); else (void)f.node->export_chunk_record(idopt);
                if (expired_unswept) c.note("ops.lookup-between-deadline-and-tick");
                sig = hx::mix(sig, 4 + expired_unswept);
            }
        } else if (k <= 9 || final_step) {
            if (final_step) vclk::advance_s(mx + 86400 + 10);
            const auto before = f.node->last_cleanup_;
            f.node->tick();
            f.drain(peer);
            if (f.node->last_cleanup_ != before) scan_after_cleanup(op);
            else c.note("ops.tick-without-cleanup");
            sig = hx::mix(sig, 6);
        } else {
            std::vector<std::int64_t> ds;
            for (auto& [_, l] : locals) ds.push_back(l.deadline);
            advance_towards(r, ds, c);
            sig = hx::mix(sig, 7);
        }
    }
    // exactly-once over the whole history
    std::map<std::string, int> counts;
    for (auto& nme : notifications) counts[nme]++;
    for (auto& [k, l] : locals) {
        c.note("cleanup.local-chunks-tracked");
        if (counts[k] != 1) c.violation(counts[k] == 0 ? "C05:notify:expiry-never-reported" : "C05:notify:expiry-reported-twice", J().kv("chunk", k).kv("reports", counts[k]).str());
    }
    c.sig(sig);
    if (c.cur_case % 199 == 0) c.sample(J().kv("min_ttl", mn).kv("max_ttl", mx).kv("ops", nops).kv("locals", locals.size()).kv("notifications", notifications.size()).str());
}
HX_PROPERTY("C05", c05_case);

// ------------------------------------------------------------------------------------ C11
std::uint8_t gmul(std::uint8_t a, std::uint8_t b) {
    std::uint16_t acc = 0;
    for (int i = 0; i < 8; ++i) if (b & (1u << i)) acc ^= static_cast<std::uint16_t>(a) << i;
    for (int bit = 15; bit >= 8; --bit) if (acc & (1u << bit)) acc ^= static_cast<std::uint16_t>(0x11Du << (bit - 8));
    return static_cast<std::uint8_t>(acc);
}
std::uint8_t ginv(std::uint8_t a) { for (int x = 1; x < 256; ++x) if (gmul(a, static_cast<std::uint8_t>(x)) == 1) return static_cast<std::uint8_t>(x); return 0; }
// Lagrange interpolation at 0 over the first t shards, independent of the repository's tables
std::array<std::uint8_t, 32> ref_combine(const std::vector<protocol::KeyShard>& shards, std::size_t t) {
    std::array<std::uint8_t, 32> out{};
    for (std::size_t byte = 0; byte < 32; ++byte) {
        std::uint8_t acc = 0;
        for (std::size_t i = 0; i < t; ++i) {
            std::uint8_t num = 1, den = 1;
            for (std::size_t j = 0; j < t; ++j) {
                if (i == j) continue;
                num = gmul(num, shards[j].index);
                den = gmul(den, shards[j].index ^ shards[i].index);
            }
            acc ^= gmul(shards[i].value[byte], gmul(num, ginv(den)));
        }
        out[byte] = acc;
    }
    return out;
}

void c11_case(Ctx& c, Rng& r) {
    Config cfg = base_config(r);
    static const std::uint8_t tn[][2] = {{1, 1}, {1, 5}, {2, 3}, {3, 5}, {5, 5}, {10, 20}, {255, 255}, {1, 255}, {128, 200}};
    const auto pick = r.below(c.thorough ? 9 : 7);
    cfg.shard_threshold = tn[pick][0];
    cfg.shard_total = tn[pick][1];
    if (r.chance(1, 3)) { cfg.shard_total = static_cast<std::uint8_t>(1 + r.below(12)); cfg.shard_threshold = static_cast<std::uint8_t>(1 + r.below(cfg.shard_total)); }
    static const std::size_t sizes[] = {0, 1, 63, 64, 65, 4096, 70000};
    std::size_t size = r.chance(1, 2) ? sizes[r.below(7)] : r.below(3000);
    if (c.thorough && r.chance(1, 50)) size = 1 << 20;
    const auto payload = r.bytes(size);
    ChunkId id = r.arr<32>();
    if (r.chance(1, 4)) { id[0] = 0xff; id[1] = 0xff; id[2] = 0xff; id[3] = 0xff; }   // counter wraps inside larger payloads
    Node A(fx::peer_id_n(1, 0x11), cfg);
    Node B(fx::peer_id_n(2, 0x12), cfg);
    const auto ttl = seconds(60 + r.below(3000));
    const auto manifest = A.store_chunk(id, payload, ttl, r.chance(1, 2) ? std::optional<std::string>("file.bin") : std::nullopt);
    const auto uri = protocol::encode_manifest(manifest);
    const auto key = chunk_id_to_string(id);
    c.note("roundtrip.stores");
    const auto desc = [&] { return J().kv("size", size).kv("t", cfg.shard_threshold).kv("n", cfg.shard_total).kv("id_prefix", hx::hex(id.data(), 4)); };
    // (a) local lookup
    const auto la = A.fetch_chunk(id);
    if (!la || *la != payload) c.violation("C11:roundtrip:local-fetch-differs", desc().str());
    // (b) held bytes are the ChaCha20 encryption under the key the shares reconstruct
    const auto held = A.chunk_store_.chunks_.at(key).data;
    if (manifest.shards.size() < manifest.threshold || manifest.threshold == 0) { c.violation("C11:manifest:shards-below-threshold", desc().str()); return; }
    const auto k_ref = ref_combine(manifest.shards, manifest.threshold);
    const auto want_cipher = ref::chacha20_rfc(k_ref.data(), manifest.nonce.bytes.data(), ref::le32(id.data()), std::span<const std::uint8_t>(payload.data(), payload.size()));
    c.note("roundtrip.ciphertext-vs-reference");
    if (held != want_cipher) c.violation("C11:held-bytes:not-chacha20-under-share-key", desc().str());
    if (ref::sha256(std::span<const std::uint8_t>(payload.data(), payload.size())) != manifest.chunk_hash) c.violation("C11:manifest:hash-is-not-sha256-of-payload", desc().str());
    // (c) replica import on another node
    const auto rb = B.receive_chunk(uri, held);
    if (!rb || *rb != payload) c.violation("C11:roundtrip:replica-import-differs", desc().kv("has", rb.has_value()).str());
    else {
        const auto fb = B.fetch_chunk(id);
        if (!fb || *fb != payload) c.violation("C11:roundtrip:replica-fetch-differs", desc().str());
        c.note("roundtrip.replica-imports");
    }
    // (d) CLI decryption
    {
        protocol::ChunkPayload cp{};
        cp.chunk_id = id;
        cp.data = held;
        const auto decoded = protocol::decode_manifest(uri);
        const auto cli = tu_cli::decrypt_chunk(decoded, cp);
        c.note("roundtrip.cli-decrypt");
        if (!cli || *cli != payload) c.violation("C11:roundtrip:cli-decrypt-differs", desc().kv("has", cli.has_value()).str());
    }
    bool b_holds_first_replica = rb.has_value() && *rb == payload;
    // (e) the same chunk id stored again (the same file uploaded twice, or the id reused for other content):
    //     the manifest of *this* store must recover *this* payload, on the storing node and on a node that
    //     already imported the first replica
    if (r.chance(1, 2)) {
        const auto payload2 = r.chance(2, 3) ? payload : r.bytes(size ? size : 1);
        b_holds_first_replica = false;
        const auto manifest2 = A.store_chunk(id, payload2, ttl);
        const auto uri2 = protocol::encode_manifest(manifest2);
        c.note("roundtrip.repeated-stores");
        const auto la2 = A.fetch_chunk(id);
        if (!la2 || *la2 != payload2) c.violation("C11:roundtrip:local-fetch-differs-after-repeated-store", desc().kv("has", la2.has_value()).kv("same_payload", payload2 == payload).str());
        const auto held2 = A.chunk_store_.chunks_.at(key).data;
        const auto k2 = ref_combine(manifest2.shards, manifest2.threshold);
        if (held2 != ref::chacha20_rfc(k2.data(), manifest2.nonce.bytes.data(), ref::le32(id.data()), std::span<const std::uint8_t>(payload2.data(), payload2.size())))
            c.violation("C11:held-bytes:not-chacha20-under-share-key", desc().kv("after", "repeated-store").str());
        const auto rb2 = B.receive_chunk(uri2, held2);
        if (!rb2 || *rb2 != payload2) c.violation("C11:roundtrip:replica-import-differs-after-repeated-store", desc().kv("has", rb2.has_value()).str());
        else {
            const auto fb2 = B.fetch_chunk(id);
            if (!fb2 || *fb2 != payload2) c.violation("C11:roundtrip:replica-fetch-differs-after-repeated-store", desc().kv("has", fb2.has_value()).str());
        }
    }
    // corruptions on a fresh node each
    const int ncorrupt = c.thorough ? 12 : 8;
    for (int i = 0; i < ncorrupt; ++i) {
        Node V(fx::peer_id_n(3, 0x13), cfg);
        auto m2 = manifest;
        auto ct = held;
        std::string how;
        const auto ck = r.below(9);
        if (ck == 0 && !ct.empty()) { const auto flips = 1 + r.below(3); for (std::uint64_t j = 0; j < flips; ++j) { const auto bit = r.below(ct.size() * 8); ct[bit / 8] ^= static_cast<std::uint8_t>(1u << (bit % 8)); } how = "ciphertext-bitflip"; }
        else if (ck == 1 && !ct.empty()) { ct.resize(r.below(ct.size())); how = "ciphertext-truncated"; }
        else if (ck == 2) { auto e = r.bytes(1 + r.below(16)); ct.insert(ct.end(), e.begin(), e.end()); how = "ciphertext-extended"; }
        else if (ck == 3) { m2.chunk_hash[r.below(32)] ^= static_cast<std::uint8_t>(1u << r.below(8)); how = "manifest-hash"; }
        else if (ck == 4) { m2.nonce.bytes[r.below(12)] ^= static_cast<std::uint8_t>(1u << r.below(8)); how = "manifest-nonce"; }
        else if (ck == 5) { const auto s = r.below(m2.threshold); m2.shards[s].value[r.below(32)] ^= static_cast<std::uint8_t>(1u << r.below(8)); how = "manifest-share-byte"; }
        else if (ck == 6 && m2.shards.size() >= 2) {
            // change a used share's index to an unused non-zero value
            std::set<int> used; for (auto& s : m2.shards) used.insert(s.index);
            int ni = 1; while (used.count(ni) && ni < 255) ++ni;
            if (used.count(ni)) continue;
            m2.shards[r.below(m2.threshold)].index = static_cast<std::uint8_t>(ni); how = "manifest-share-index";
        }
        else if (ck == 7 && m2.threshold >= 2) { m2.threshold -= 1; how = "manifest-threshold-lowered"; }
        else if (ck == 8) { m2.chunk_id[4 + r.below(28)] ^= 1; how = "manifest-chunk-id"; }
        else continue;
        // is the mutated pair still a consistent one? (then acceptance is correct)
        bool consistent = false;
        if (m2.threshold >= 1 && m2.shards.size() >= m2.threshold) {
            const auto k2 = ref_combine(m2.shards, m2.threshold);
            const auto pt = ref::chacha20_rfc(k2.data(), m2.nonce.bytes.data(), ref::le32(m2.chunk_id.data()), std::span<const std::uint8_t>(ct.data(), ct.size()));
            consistent = ref::sha256(std::span<const std::uint8_t>(pt.data(), pt.size())) == m2.chunk_hash;
        }
        const auto before = derived_snapshot(V);
        std::optional<ChunkData> got;
        try { got = V.receive_chunk(protocol::encode_manifest(m2), ct); }
        catch (const std::exception& e) { c.violation("C11:tamper:receive-throws:" + how, desc().kv("what", e.what()).str()); continue; }
        c.note("tamper.attempts");
        if (consistent) { c.note("tamper.still-consistent"); continue; }
        if (got.has_value()) c.violation("C11:tamper:replica-accepted:" + how, desc().str());
        if (derived_snapshot(V) != before) c.violation("C11:tamper:rejected-replica-changed-state:" + how, desc().str());
        if (V.fetch_chunk(m2.chunk_id).has_value()) c.violation("C11:tamper:rejected-replica-returned-later:" + how, desc().str());
        // a node that already holds the genuine replica under this very manifest is offered the tampered bytes: same answer,
        // and it keeps serving what it stored
        if (b_holds_first_replica && ck <= 2) {
            std::optional<ChunkData> gotb;
            try { gotb = B.receive_chunk(uri, ct); }
            catch (const std::exception& e) { c.violation("C11:tamper:receive-throws:" + how, desc().kv("what", e.what()).kv("holder", true).str()); continue; }
            c.note("tamper.attempts-on-a-node-holding-the-genuine-replica");
            if (gotb.has_value()) c.violation("C11:tamper:replica-accepted-by-node-holding-the-genuine-one:" + how, desc().str());
            const auto still = B.fetch_chunk(id);
            if (!still || *still != payload) c.violation("C11:tamper:holder-no-longer-serves-the-stored-payload:" + how, desc().kv("has", still.has_value()).str());
        }
        // CLI side: must not produce plaintext either
        protocol::ChunkPayload cp{};
        cp.chunk_id = m2.chunk_id;
        cp.data = ct;
        try {
            const auto cli = tu_cli::decrypt_chunk(m2, cp);
            if (cli.has_value()) c.violation("C11:tamper:cli-accepted:" + how, desc().str());
        } catch (const std::invalid_argument&) {
        } catch (const std::exception& e) { c.violation("C11:tamper:cli-throws-foreign:" + how, desc().kv("what", e.what()).str()); }
    }
    c.sig(hx::mix(hx::mix(size, cfg.shard_threshold), hx::mix(cfg.shard_total, id[0])));
    if (c.cur_case % 97 == 0) c.sample(desc().kv("uri_len", uri.size()).str());
}
HX_PROPERTY("C11", c11_case);

struct Init { Init() { vclk::freeze(); fx::silence_cerr(); } } g_init;

}  // namespace

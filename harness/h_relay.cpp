// C25 relay bridges deliver bytes only to the bridged partner; C26 relay never crashes and releases everything.
// Stepped mode: a real RelayServer + EventLoop are started on an ephemeral port, but EventLoop::run() is never
// called; the harness itself invokes accept_new_clients() / on_client_event() for the session it chooses, so
// the harness picks the interleaving.  Clients are real TCP sockets; reads are exact-count.
#include <arpa/inet.h>
#include <dirent.h>
#include <fcntl.h>
#include <netinet/in.h>
#include <netinet/tcp.h>
#include <poll.h>
#include <signal.h>
#include <sys/ioctl.h>
#include <sys/socket.h>
#include <unistd.h>

#include <algorithm>
#include <atomic>
#include <map>
#include <iostream>
#include <set>
#include <thread>

#include "common/hx.hpp"
#include "ephemeralnet/relay/EventLoop.hpp"
#include "ephemeralnet/relay/RelayServer.hpp"

using namespace ephemeralnet;
using namespace ephemeralnet::relay;
using hx::Ctx;
using hx::J;
using hx::Rng;

namespace {

std::set<int> open_fds() {
    std::set<int> s;
    if (DIR* d = opendir("/proc/self/fd")) {
        const int dfd = dirfd(d);
        while (auto* e = readdir(d)) {
            if (e->d_name[0] == '.') continue;
            const int fd = std::atoi(e->d_name);
            if (fd != dfd) s.insert(fd);
        }
        closedir(d);
    }
    return s;
}

std::string hex_id(unsigned n) {
    char buf[65];
    for (int i = 0; i < 32; ++i) std::snprintf(buf + 2 * i, 3, "%02x", (n * 37 + i * 11 + 5) & 0xff);
    buf[0] = "0123456789abcdef"[n & 15];
    return std::string(buf, 64);
}

// ids are hexadecimal: a quarter of the time the same id is spelled with upper-case digits (all, or a random subset)
std::string spell(Rng& r, std::string hex) {
    if (!r.chance(1, 4)) return hex;
    const bool all = r.chance(1, 2);
    for (auto& ch : hex) if (ch >= 'a' && ch <= 'f' && (all || r.chance(1, 2))) ch = static_cast<char>(ch - 'a' + 'A');
    return hex;
}

struct Client {
    int fd{-1};
    int server_fd{-1};
    std::shared_ptr<RelayServer::ClientSession> session;   // our own reference keeps the object inspectable after close
    std::string received;          // everything read so far
    std::size_t expected_rx{0};    // bytes the server handed to the kernel for this client
    std::size_t pending_tx{0};     // bytes written by the client, not yet consumed by the server
    bool closed_by_client{false};
    bool eof_pending{false};
    bool server_closed{false};
    std::vector<std::string> sent_tokens;    // in send order
    std::vector<std::size_t> token_step;     // step index when sent
    unsigned seq{0};
    bool saw_eof{false};
};

// One listening port per worker process, reused from case to case (the relay sets SO_REUSEADDR).  A fresh ephemeral port per
// case would stay blocked for a minute by the TIME_WAIT remains of its connections; a long run then eats the whole ephemeral
// port range and fails every other program on the machine as well.
std::uint16_t& process_listen_port() { static std::uint16_t p = 0; return p; }
bool start_on_process_port(RelayServer& server) {
    if (server.start()) {
        if (process_listen_port() == 0) {
            sockaddr_in a{};
            socklen_t l = sizeof a;
            getsockname(server.listen_fd_, reinterpret_cast<sockaddr*>(&a), &l);
            process_listen_port() = ntohs(a.sin_port);
        }
        return true;
    }
    // the remembered port was taken by somebody else in the meantime: pick a new one
    if (server.listen_fd_ >= 0) { ::close(server.listen_fd_); server.listen_fd_ = -1; }
    process_listen_port() = 0;
    server.config_.listen_port = 0;
    if (!server.start()) return false;
    sockaddr_in a{};
    socklen_t l = sizeof a;
    getsockname(server.listen_fd_, reinterpret_cast<sockaddr*>(&a), &l);
    process_listen_port() = ntohs(a.sin_port);
    return true;
}

struct Stepper {
    Ctx& c;
    EventLoop loop;
    RelayServer server;
    std::uint16_t port{0};
    std::vector<std::unique_ptr<Client>> clients;
    std::size_t step{0};
    bool harness_failed{false};

    explicit Stepper(Ctx& ctx) : c(ctx), server(loop, RelayServerConfig{"127.0.0.1", process_listen_port(), std::chrono::seconds(10)}) {
        std::cout.setstate(std::ios::failbit);   // "Relay server listening" banner
        if (!start_on_process_port(server)) { harness_failed = true; return; }
        sockaddr_in a{};
        socklen_t l = sizeof a;
        getsockname(server.listen_fd_, reinterpret_cast<sockaddr*>(&a), &l);
        port = ntohs(a.sin_port);
    }

    int connect_client() {
        int fd = ::socket(AF_INET, SOCK_STREAM, 0);
        sockaddr_in a{};
        a.sin_family = AF_INET;
        a.sin_port = htons(port);
        inet_pton(AF_INET, "127.0.0.1", &a.sin_addr);
        if (::connect(fd, reinterpret_cast<sockaddr*>(&a), sizeof a) != 0) { ::close(fd); harness_failed = true; return -1; }
        int one = 1;
        setsockopt(fd, IPPROTO_TCP, TCP_NODELAY, &one, sizeof one);
        std::set<int> before;
        for (auto& [k, _] : server.sessions_) before.insert(k);
        // the connection is established (connect returned) so accept() finds it
        for (int tries = 0; tries < 200; ++tries) {
            server.accept_new_clients();
            if (server.sessions_.size() > before.size()) break;
            ::usleep(1000);
        }
        auto cl = std::make_unique<Client>();
        cl->fd = fd;
        for (auto& [k, s] : server.sessions_) if (!before.count(k)) { cl->server_fd = k; cl->session = s; }
        if (!cl->session) { harness_failed = true; ::close(fd); return -1; }
        clients.push_back(std::move(cl));
        return static_cast<int>(clients.size()) - 1;
    }

    void client_send(int i, const std::string& bytes) {
        auto& cl = *clients[i];
        if (cl.closed_by_client || bytes.empty()) return;
        std::size_t off = 0;
        while (off < bytes.size()) {
            const auto n = ::send(cl.fd, bytes.data() + off, std::min<std::size_t>(bytes.size() - off, 16384), MSG_NOSIGNAL);
            if (n <= 0) return;   // server already closed this connection
            off += static_cast<std::size_t>(n);
            cl.pending_tx += static_cast<std::size_t>(n);
            if (cl.pending_tx >= 32768) serve_readable(i);   // keep everything in flight below the socket buffer sizes (single-threaded harness)
        }
    }
    void client_close(int i) {
        auto& cl = *clients[i];
        if (cl.closed_by_client) return;
        ::shutdown(cl.fd, SHUT_WR);
        cl.closed_by_client = true;
        cl.eof_pending = true;
    }

    bool session_open(const Client& cl) const { return cl.session && !cl.session->closing; }

    // wait until the kernel has delivered what the client wrote (loopback: normally immediate)
    void wait_delivery(Client& cl) {
        if (!session_open(cl)) return;
        for (int tries = 0; tries < 60000; ++tries) {   // up to 30 s: loopback delivery is deferred work for the kernel and can lag under load
            int avail = 0;
            ioctl(cl.server_fd, FIONREAD, &avail);
            bool hup = false, reset = false;
            if (cl.eof_pending) { pollfd p{cl.server_fd, POLLIN | POLLRDHUP, 0}; poll(&p, 1, 0); hup = p.revents & (POLLRDHUP | POLLHUP); reset = p.revents & POLLERR; }
            if (static_cast<std::size_t>(avail) >= cl.pending_tx && (!cl.eof_pending || hup)) return;
            // a client that left with a reset (SO_LINGER 0) discards whatever it had not transmitted yet: once the reset has
            // arrived nothing more will, however many bytes the client had written
            if (cl.eof_pending && hup && reset) return;
            ::usleep(500);
        }
        {
            int avail = 0;
            ioctl(cl.server_fd, FIONREAD, &avail);
            pollfd p{cl.server_fd, POLLIN | POLLRDHUP, 0};
            poll(&p, 1, 0);
            int outq = -1;
            if (cl.fd >= 0) ioctl(cl.fd, TIOCOUTQ, &outq);
            c.violation("harness:relay:loopback-delivery-timeout", J().kv("step", step).kv("pending_tx", cl.pending_tx).kv("available", avail).kv("eof_pending", cl.eof_pending).kv("revents", p.revents)
                            .kv("client_fd", cl.fd).kv("client_outq", outq).kv("closed_by_client", cl.closed_by_client).kv("session_closing", cl.session ? cl.session->closing : true).str());
        }
        harness_failed = true;
    }

    // queued-bytes bookkeeping around any server activity: whatever left a write_buffer went to the kernel
    struct WbSnap { std::map<int, std::size_t> sizes; };
    void flush_all_writes() {
        for (auto& clp : clients) {
            auto& cl = *clp;
            if (!session_open(cl)) continue;
            const auto before = cl.session->write_buffer.size();
            if (before == 0) continue;
            server.on_client_event(cl.session, EventLoop::kEventWritable);
            const auto after = cl.session->closing ? before : cl.session->write_buffer.size();
            cl.expected_rx += before - after;
        }
    }
    void serve_writable(int i) {
        auto& cl = *clients[i];
        if (!session_open(cl) || cl.session->write_buffer.empty()) return;
        const auto before = cl.session->write_buffer.size();
        server.on_client_event(cl.session, EventLoop::kEventWritable);
        const auto after = cl.session->closing ? before : cl.session->write_buffer.size();
        cl.expected_rx += before - after;
        ++step;
    }
    void serve_readable(int i) {
        auto& cl = *clients[i];
        if (!session_open(cl)) { cl.pending_tx = 0; cl.eof_pending = false; return; }
        if (cl.pending_tx == 0 && !cl.eof_pending) return;
        wait_delivery(cl);
        if (harness_failed) return;
        // record who the server thinks this client is bridged with, before the step
        observe_forwarding_begin(i);
        server.on_client_event(cl.session, EventLoop::kEventReadable);
        cl.pending_tx = 0;
        cl.eof_pending = false;
        ++step;
        observe_forwarding_end(i);
        check_structure();
    }

    // ---- monitors -------------------------------------------------------------------------------------------
    std::map<int, std::size_t> wb_before;
    void observe_forwarding_begin(int) {
        wb_before.clear();
        for (std::size_t j = 0; j < clients.size(); ++j) if (session_open(*clients[j])) wb_before[static_cast<int>(j)] = clients[j]->session->write_buffer.size();
    }
    void observe_forwarding_end(int i) {
        // bytes queued to other clients during this step were relayed from client i (or are control lines for them):
        // relayed data may only be queued to a session that is Bridged and whose partner is the sender.
        for (std::size_t j = 0; j < clients.size(); ++j) {
            if (static_cast<int>(j) == i) continue;
            auto& other = *clients[j];
            if (!other.session || other.session->closing) continue;
            const auto before = wb_before.count(static_cast<int>(j)) ? wb_before[static_cast<int>(j)] : 0;
            const auto now = other.session->write_buffer.size();
            if (now <= before) continue;
            const std::string added = other.session->write_buffer.substr(before);
            c.note("relay.forwarding-steps-observed");
            const bool bridged = other.session->state == RelayServer::SessionState::Bridged;
            auto p = other.session->partner.lock();
            const bool partner_is_sender = p && p.get() == clients[i]->session.get();
            if (!bridged || !partner_is_sender)
                c.violation(!bridged ? "C25:bridge:bytes-queued-to-client-whose-bridge-does-not-exist" : "C25:bridge:bytes-queued-to-client-bridged-with-someone-else",
                            J().kv("step", step).kv("from", i).kv("to", j).kv("to_state", static_cast<int>(other.session->state)).kv("bytes", added.substr(0, 60)).str());
        }
    }
    void check_structure() {
        for (std::size_t a = 0; a < clients.size(); ++a) {
            auto& s = clients[a]->session;
            if (!s || s->closing) continue;
            c.note("relay.structure-checks");
            if (auto p = s->partner.lock()) {
                auto back = p->partner.lock();
                if (!p->closing && (!back || back.get() != s.get()))
                    c.violation("C25:pairing:partner-link-not-symmetric", J().kv("step", step).kv("client", a).kv("state", static_cast<int>(s->state)).str());
                // a session with a partner is claimed: it must not be claimable again
                for (auto& [hex, w] : server.registered_) {
                    auto r = w.lock();
                    if (r && r.get() == s.get()) c.violation("C25:pairing:claimed-peer-registered-again", J().kv("step", step).kv("client", a).str());
                }
            } else if (s->state == RelayServer::SessionState::Bridged || s->state == RelayServer::SessionState::AwaitingIdentity) {
                // bridge half without a partner must be on its way out
                c.note("relay.bridge-half-without-partner");
            }
        }
    }

    // read exactly what the server has sent so far
    void client_read_all(int i) {
        auto& cl = *clients[i];
        while (cl.received.size() < cl.expected_rx) {
            pollfd p{cl.fd, POLLIN, 0};
            const int pr = poll(&p, 1, 10000);
            if (pr <= 0) { c.violation("harness:relay:exact-count-read-timeout", J().kv("client", i).kv("have", cl.received.size()).kv("want", cl.expected_rx).str()); harness_failed = true; return; }
            char buf[65536];
            const auto n = ::recv(cl.fd, buf, std::min(sizeof buf, cl.expected_rx - cl.received.size()), 0);
            if (n <= 0) {
                // connection reset: data the server queued can be discarded by the kernel when the peer closed first
                cl.saw_eof = true;
                return;
            }
            cl.received.append(buf, static_cast<std::size_t>(n));
        }
    }
    bool client_sees_eof(int i) {
        auto& cl = *clients[i];
        client_read_all(i);
        pollfd p{cl.fd, POLLIN | POLLRDHUP, 0};
        if (poll(&p, 1, 5000) <= 0) return false;
        char b;
        const auto n = ::recv(cl.fd, &b, 1, MSG_PEEK | MSG_DONTWAIT);
        return n == 0 || (n < 0 && errno != EAGAIN);
    }

    void quiesce() {
        for (int round = 0; round < 50; ++round) {
            bool any = false;
            for (std::size_t i = 0; i < clients.size(); ++i) {
                if (clients[i]->pending_tx || clients[i]->eof_pending) { serve_readable(static_cast<int>(i)); any = true; }
            }
            for (std::size_t i = 0; i < clients.size(); ++i) {
                if (session_open(*clients[i]) && !clients[i]->session->write_buffer.empty()) {
                    // drain the client side so the server can always write
                    serve_writable(static_cast<int>(i));
                    client_read_all(static_cast<int>(i));
                    any = true;
                }
            }
            if (!any || harness_failed) break;
        }
    }

    ~Stepper() {
        for (auto& cl : clients) if (cl->fd >= 0) ::close(cl->fd);
    }
};

std::string token(Client& cl, int i, std::size_t step) {
    std::string t = "<" + std::to_string(i) + ":" + std::to_string(cl.seq++) + ">";
    cl.sent_tokens.push_back(t);
    cl.token_step.push_back(step);
    return t;
}
std::string identity_bytes(int i) {
    std::string s = "#ID:" + std::to_string(i) + "#";
    s.resize(32, '=');
    return s;
}

// tokens of sender y inside x's received stream, in order
std::vector<std::string> tokens_from(const std::string& stream, int y) {
    std::vector<std::string> out;
    const std::string open = "<" + std::to_string(y) + ":";
    std::size_t pos = 0;
    while ((pos = stream.find(open, pos)) != std::string::npos) {
        const auto end = stream.find('>', pos);
        if (end == std::string::npos) break;
        out.push_back(stream.substr(pos, end - pos + 1));
        pos = end + 1;
    }
    return out;
}

// ------------------------------------------------------------------------------------ C25
void c25_case(Ctx& c, Rng& r) {
    Stepper st(c);
    if (st.harness_failed) { c.violation("harness:relay:server-start-failed", "{}"); return; }
    const int nclients = 2 + static_cast<int>(r.below(5));
    const int npeers = 1 + static_cast<int>(r.below(3));
    for (int i = 0; i < nclients; ++i) if (st.connect_client() < 0) { c.violation("harness:relay:connect-failed", "{}"); return; }
    // per client role knowledge for plausible scripts
    std::vector<int> registered_as(nclients, -1), connect_self(nclients, -1);
    std::vector<bool> sent_identity(nclients, false), did_connect(nclients, false);
    const auto nops = 10 + r.below(60);
    std::uint64_t sig = hx::mix(nclients, npeers);
    // guided prologue (2 of 3 cases): one or two register/connect/identity exchanges so that bridges exist early;
    // the served order of the pending events is still chosen at random
    if (!r.chance(1, 3)) {
        const int pairs = std::min(nclients / 2, 1 + static_cast<int>(r.below(2)));
        for (int q = 0; q < pairs; ++q) {
            const int a = 2 * q, b = 2 * q + 1, p = q % npeers;
            st.client_send(a, "REGISTER " + spell(r, hex_id(p)) + "\n");
            registered_as[a] = p;
            if (r.chance(3, 4)) st.serve_readable(a);
            st.client_send(b, "CONNECT " + hex_id(10 + b) + " " + spell(r, hex_id(p)) + "\n");
            did_connect[b] = true;
            if (r.chance(1, 2)) st.serve_readable(a);
            st.serve_readable(b);
            if (r.chance(3, 4)) { st.client_send(b, identity_bytes(b)); sent_identity[b] = true; if (r.chance(1, 2)) st.serve_readable(b); }
        }
        c.note("ops.guided-prologues");
    }
    for (std::uint64_t op = 0; op < nops && !st.harness_failed; ++op) {
        const int i = static_cast<int>(r.below(nclients));
        auto& cl = *st.clients[i];
        const auto k = r.below(16);
        if (k <= 1) {
            const int p = static_cast<int>(r.below(npeers));
            st.client_send(i, "REGISTER " + spell(r, hex_id(p)) + (r.chance(1, 4) ? "\r\n" : "\n"));
            registered_as[i] = p;
            c.note(cl.session && cl.session->partner.lock() ? "ops.re-register-while-claimed" : "ops.register");
            sig = hx::mix(sig, 1);
        } else if (k <= 3) {
            const int t = static_cast<int>(r.below(npeers));
            int self = 10 + i;
            if (r.chance(1, 8)) self = t;   // self-connect
            const std::string line = "CONNECT " + (self == t ? hex_id(t) : hex_id(self)) + " " + spell(r, hex_id(t)) + "\n";
            if (r.chance(1, 3) && line.size() > 10) { const auto cut = 1 + r.below(line.size() - 1); st.client_send(i, line.substr(0, cut)); st.serve_readable(i); st.client_send(i, line.substr(cut)); }
            else st.client_send(i, line);
            did_connect[i] = true;
            c.note("ops.connect");
            sig = hx::mix(sig, 2);
        } else if (k <= 5) {
            if (did_connect[i] && !sent_identity[i]) {
                const auto id = identity_bytes(i);
                if (r.chance(1, 2)) { const auto cut = r.below(33); st.client_send(i, id.substr(0, cut)); if (r.chance(1, 2)) st.serve_readable(i); st.client_send(i, id.substr(cut)); }
                else st.client_send(i, id + (r.chance(1, 2) ? token(cl, i, st.step) : std::string{}));
                sent_identity[i] = true;
                c.note("ops.identity");
                sig = hx::mix(sig, 3);
            }
        } else if (k <= 9) {
            // data: only meaningful tokens, sent whatever the state
            std::string d;
            const auto n = 1 + r.below(3);
            for (std::uint64_t q = 0; q < n; ++q) d += token(cl, i, st.step);
            st.client_send(i, d);
            c.note("ops.data");
            sig = hx::mix(sig, 4);
        } else if (k == 10) {
            st.client_close(i);
            c.note("ops.client-close");
            sig = hx::mix(sig, 5);
        } else if (k <= 13) {
            // serve a pending readable event of a client the harness chooses
            std::vector<int> ready;
            for (int j = 0; j < nclients; ++j) if (st.clients[j]->pending_tx || st.clients[j]->eof_pending) ready.push_back(j);
            if (!ready.empty()) { st.serve_readable(ready[r.below(ready.size())]); c.note("schedule.readable-served"); }
            sig = hx::mix(sig, 6);
        } else {
            std::vector<int> ready;
            for (int j = 0; j < nclients; ++j) if (st.session_open(*st.clients[j]) && !st.clients[j]->session->write_buffer.empty()) ready.push_back(j);
            if (!ready.empty()) { const int j = ready[r.below(ready.size())]; st.serve_writable(j); st.client_read_all(j); c.note("schedule.writable-served"); }
            sig = hx::mix(sig, 7);
        }
    }
    if (st.harness_failed) return;
    // bridges alive now (server view, symmetric): remember them before the tail
    std::vector<std::pair<int, int>> live_bridges;
    for (int a = 0; a < nclients; ++a) for (int b = a + 1; b < nclients; ++b) {
        auto& sa = st.clients[a]->session; auto& sb = st.clients[b]->session;
        if (!sa || !sb || sa->closing || sb->closing) continue;
        if (sa->state == RelayServer::SessionState::Bridged && sb->state == RelayServer::SessionState::Bridged && sa->partner.lock().get() == sb.get() && sb->partner.lock().get() == sa.get() &&
            !st.clients[a]->closed_by_client && !st.clients[b]->closed_by_client)
            live_bridges.emplace_back(a, b);
    }
    // tail: both ends of every live bridge exchange a final burst, then everything is flushed
    std::map<int, std::vector<std::string>> tail_sent;
    for (auto& [a, b] : live_bridges) {
        for (int side = 0; side < 2; ++side) {
            const int x = side ? b : a;
            // flush anything still unserved first so the burst is "after bridge established, both connected"
            st.serve_readable(x);
        }
    }
    for (auto& [a, b] : live_bridges) {
        for (int side = 0; side < 2; ++side) {
            const int x = side ? b : a;
            std::string d;
            for (int q = 0; q < 3; ++q) { auto t = token(*st.clients[x], x, st.step); tail_sent[x].push_back(t); d += t; }
            st.client_send(x, d);
        }
    }
    st.quiesce();
    if (st.harness_failed) return;
    for (int i = 0; i < nclients; ++i) st.client_read_all(i);
    // token attribution: whatever X received from Y must have been forwarded while (X,Y) were bridged -> checked step by step above;
    // here: in-order, no loss for the tail bursts on bridges whose both ends stayed connected
    for (auto& [a, b] : live_bridges) {
        for (int side = 0; side < 2; ++side) {
            const int x = side ? b : a, y = side ? a : b;
            auto& sx = st.clients[x]->session; auto& sy = st.clients[y]->session;
            if (sx->closing || sy->closing) continue;
            const auto got = tokens_from(st.clients[y]->received, x);
            c.note("delivery.bridge-directions-checked");
            // the tail tokens must appear, in order, at the end of what y received from x
            const auto& want = tail_sent[x];
            if (got.size() < want.size() || !std::equal(want.begin(), want.end(), got.end() - static_cast<std::ptrdiff_t>(want.size())))
                c.violation("C25:delivery:bridged-bytes-lost-or-reordered", J().kv("from", x).kv("to", y).kv("sent", want.size()).kv("received_from_sender", got.size()).str());
            // nobody else received anything from x after the bridge: tail tokens appear nowhere else
            for (int z = 0; z < nclients; ++z) {
                if (z == y || z == x) continue;
                for (auto& t : want) if (st.clients[z]->received.find(t) != std::string::npos) c.violation("C25:delivery:bytes-reached-a-third-client", J().kv("from", x).kv("to", z).kv("token", t).str());
            }
        }
    }
    // every token anybody received must come from a single consistent partner at that time: a client never receives its own tokens
    for (int x = 0; x < nclients; ++x) {
        if (!tokens_from(st.clients[x]->received, x).empty()) c.violation("C25:delivery:client-received-its-own-bytes", J().kv("client", x).str());
        for (int y = 0; y < nclients; ++y) {
            const auto got = tokens_from(st.clients[x]->received, y);
            if (got.empty()) continue;
            c.note("delivery.token-streams-checked");
            // in send order, without duplicates
            const auto& sent = st.clients[y]->sent_tokens;
            std::size_t pos = 0;
            for (auto& t : got) {
                while (pos < sent.size() && sent[pos] != t) ++pos;
                if (pos == sent.size()) { c.violation("C25:delivery:tokens-out-of-order-or-duplicated", J().kv("from", y).kv("to", x).kv("token", t).str()); break; }
                ++pos;
            }
        }
    }
    // disconnect propagation: close one side of each live bridge, the other must read EOF
    for (auto& [a, b] : live_bridges) {
        if (st.clients[a]->session->closing || st.clients[b]->session->closing) continue;
        const int closer = r.chance(1, 2) ? a : b, other = closer == a ? b : a;
        st.client_close(closer);
        st.quiesce();
        if (st.harness_failed) return;
        c.note("disconnect.bridge-teardowns-checked");
        if (!st.clients[other]->session->closing) c.violation("C25:disconnect:partner-session-kept-after-bridge-end", J().kv("closed", closer).kv("other", other).str());
        else if (!st.client_sees_eof(other)) c.violation("C25:disconnect:partner-not-disconnected", J().kv("closed", closer).kv("other", other).str());
    }
    c.sig(sig);
    if (c.cur_case % 199 == 0) c.sample(J().kv("clients", nclients).kv("peer_ids", npeers).kv("ops", nops).kv("bridges_at_end", live_bridges.size()).kv("steps", st.step).str());
}
HX_PROPERTY("C25", c25_case);

// ------------------------------------------------------------------------------------ C26
void c26_case(Ctx& c, Rng& r) {
    // fds owned by the harness runtime itself (log file etc.) are part of the baseline
    const auto baseline = open_fds();
    {
        Stepper st(c);
        if (st.harness_failed) { c.violation("harness:relay:server-start-failed", "{}"); return; }
        const auto with_server = open_fds();
        const int nclients = 1 + static_cast<int>(r.below(6));
        for (int i = 0; i < nclients; ++i) if (st.connect_client() < 0) { c.violation("harness:relay:connect-failed", "{}"); return; }
        const auto nops = 5 + r.below(40);
        std::uint64_t sig = nclients;
        std::vector<std::string> valid_dialogue = {"REGISTER " + hex_id(1) + "\n", "CONNECT " + hex_id(12) + " " + hex_id(1) + "\n", identity_bytes(1), "payload", "PONG\n"};
        for (std::uint64_t op = 0; op < nops && !st.harness_failed; ++op) {
            const int i = static_cast<int>(r.below(nclients));
            const auto k = r.below(14);
            std::string bytes;
            if (k == 0) bytes = "REGISTER " + spell(r, hex_id(static_cast<unsigned>(r.below(3)))) + "\n";
            else if (k == 1) bytes = "CONNECT " + hex_id(10 + i) + " " + spell(r, hex_id(static_cast<unsigned>(r.below(3)))) + "\n";
            else if (k == 2) { bytes = identity_bytes(i).substr(0, r.below(33)); }
            else if (k == 3) { const auto& d = valid_dialogue[r.below(valid_dialogue.size())]; bytes = d.substr(0, r.below(d.size() + 1)); }   // every prefix of valid dialogue pieces
            else if (k == 4) { bytes.assign(r.chance(1, 4) ? (1u << 20) : 1 + r.below(70000), 'A'); if (r.chance(1, 2)) bytes += "\n"; c.note("streams.huge-lines"); }
            else if (k == 5) { auto b = r.bytes(1 + r.below(300)); bytes.assign(b.begin(), b.end()); c.note("streams.binary"); }
            else if (k == 6) { static const char* odd[] = {"\n", "\r\n", "\r", "REGISTER\n", "REGISTER \n", "REGISTER zz\n", "CONNECT\n", "CONNECT a\n", "CONNECT a b c\n", "CONNECT  a  b\n", "PONG\n", "BEGIN x\n", "OK\n", "register abc\n",
                                                    "REGISTER 00\n", "CONNECT 00 00\n", " REGISTER 00\n"}; bytes = odd[r.below(17)]; if (r.chance(1, 3)) bytes = std::string(bytes) + std::string(1, '\0') + "x\n"; }
            else if (k == 7) { bytes = "REGISTER " + hex_id(static_cast<unsigned>(r.below(3))).substr(0, r.below(70)) + std::string(r.below(3), 'g') + "\n"; }
            else if (k == 8) { st.client_close(i); c.note("streams.client-closes"); }
            else if (k <= 11) { std::vector<int> ready; for (int j = 0; j < nclients; ++j) if (st.clients[j]->pending_tx || st.clients[j]->eof_pending) ready.push_back(j); if (!ready.empty()) st.serve_readable(ready[r.below(ready.size())]); }
            else { std::vector<int> ready; for (int j = 0; j < nclients; ++j) if (st.session_open(*st.clients[j]) && !st.clients[j]->session->write_buffer.empty()) ready.push_back(j); if (!ready.empty()) { const int j = ready[r.below(ready.size())]; st.serve_writable(j); st.client_read_all(j); } }
            if (!bytes.empty()) { st.client_send(i, bytes); c.note("streams.bytes-sent", bytes.size()); }
            sig = hx::mix(sig, hx::mix(k, bytes.size()));
        }
        if (st.harness_failed) return;
        // everybody leaves, in random order, some abruptly (RST via SO_LINGER 0)
        std::vector<int> order(nclients);
        for (int i = 0; i < nclients; ++i) order[i] = i;
        std::shuffle(order.begin(), order.end(), r);
        for (int i : order) {
            auto& cl = *st.clients[i];
            if (r.chance(1, 3) && !cl.closed_by_client) {
                linger lg{1, 0};
                setsockopt(cl.fd, SOL_SOCKET, SO_LINGER, &lg, sizeof lg);
                ::close(cl.fd);
                cl.fd = -1;
                cl.closed_by_client = true;
                cl.eof_pending = true;
                c.note("streams.abrupt-resets");
            } else st.client_close(i);
            if (r.chance(1, 2)) st.quiesce();
        }
        st.quiesce();
        // a reset connection may only be noticed on the next event for it
        for (int round = 0; round < 3; ++round) for (int i = 0; i < nclients; ++i) if (st.session_open(*st.clients[i])) { st.clients[i]->eof_pending = true; st.serve_readable(i); }
        if (st.harness_failed) return;
        c.note("release.all-clients-left");
        if (!st.server.sessions_.empty()) c.violation("C26:release:sessions-remain-after-all-clients-left", J().kv("sessions", st.server.sessions_.size()).str());
        std::size_t live_regs = 0;
        for (auto& [h, w] : st.server.registered_) { (void)h; (void)w; ++live_regs; }
        if (live_regs) c.violation("C26:release:registrations-remain-after-all-clients-left", J().kv("registrations", live_regs).str());
        for (auto& cl : st.clients) if (cl->fd >= 0) { ::close(cl->fd); cl->fd = -1; }
        const auto now_fds = open_fds();
        std::vector<int> extra;
        for (int fd : now_fds) if (!with_server.count(fd)) extra.push_back(fd);
        if (!extra.empty()) c.violation("C26:release:client-descriptors-still-open", J().kv("count", extra.size()).kv("first", extra[0]).str());
        // still serving
        const int probe = st.connect_client();
        if (probe < 0) c.violation("C26:liveness:server-no-longer-accepts", "{}");
        else {
            st.client_send(probe, "REGISTER " + hex_id(7) + "\n");
            st.serve_readable(probe);
            st.serve_writable(probe);
            st.client_read_all(probe);
            c.note("release.post-run-probes");
            if (st.clients[probe]->received != "OK\n") c.violation("C26:liveness:server-does-not-answer-after-hostile-run", J().kv("got", st.clients[probe]->received.substr(0, 40)).str());
        }
        c.sig(sig);
        if (c.cur_case % 199 == 0) c.sample(J().kv("clients", nclients).kv("ops", nops).kv("steps", st.step).str());
    }
    const auto after = open_fds();
    for (int fd : after) if (!baseline.count(fd)) { c.violation("C26:release:descriptor-leak-after-server-stop", J().kv("fd", fd).str()); break; }
}
HX_PROPERTY("C26", c26_case);

// ------------------------------------------------------------------------------------ threaded mode (C25t / C26t)
// The real event loop (EventLoop::run on its own thread, epoll, the callbacks registered by RelayServer) serves
// concurrent client threads.  Clients only observe their own sockets while the loop runs; the server's tables are
// read after the loop thread has been joined, and leftover events are then served single-threaded, so that the
// completeness verdict never depends on a wall-clock deadline.
struct TClient {
    int idx{0};
    int fd{-1};
    int role{0};                      // 0 target, 1 connector, 2 garbage
    int peer{-1};                     // id registered (target) / id asked for (connector)
    std::string self_hex;             // connector's own id
    std::string rx;                   // every byte received
    std::vector<std::string> sent;    // tokens in send order
    unsigned seq{0};
    bool sent_end{false};
    bool closed{false};               // closed its socket while the loop was running
    bool reply_ok{false};
    bool send_failed{false};
    bool saw_eof{false};              // the relay ended this connection (EOF / reset seen by the client)
    int eof_errno{0};
    std::uint64_t seed{0};
};

bool t_read(TClient& cl, int ms) {   // false on EOF / error
    pollfd p{cl.fd, POLLIN, 0};
    if (poll(&p, 1, ms) <= 0) return true;
    char buf[65536];
    const auto n = ::recv(cl.fd, buf, sizeof buf, MSG_DONTWAIT);
    if (n > 0) { cl.rx.append(buf, static_cast<std::size_t>(n)); return true; }
    if (n < 0 && (errno == EAGAIN || errno == EWOULDBLOCK || errno == EINTR)) return true;
    cl.saw_eof = true;
    cl.eof_errno = n < 0 ? errno : 0;
    return false;
}
bool t_send(TClient& cl, const std::string& bytes) {
    std::size_t off = 0;
    while (off < bytes.size()) {
        pollfd p{cl.fd, POLLOUT | POLLIN, 0};
        if (poll(&p, 1, 20000) <= 0) { cl.send_failed = true; return false; }
        if (p.revents & POLLIN) { if (!t_read(cl, 0)) { cl.send_failed = true; return false; } }   // keep draining: no deadlock against a full relay buffer
        if (!(p.revents & POLLOUT)) continue;
        const auto n = ::send(cl.fd, bytes.data() + off, std::min<std::size_t>(bytes.size() - off, 32768), MSG_NOSIGNAL | MSG_DONTWAIT);
        if (n > 0) off += static_cast<std::size_t>(n);
        else if (n < 0 && errno != EAGAIN && errno != EWOULDBLOCK && errno != EINTR) { cl.send_failed = true; return false; }
    }
    return true;
}
std::string t_token(TClient& cl) {
    std::string t = "<" + std::to_string(cl.idx) + ":" + std::to_string(cl.seq++) + ">";
    cl.sent.push_back(t);
    return t;
}
std::string t_end(const TClient& cl) { return "<" + std::to_string(cl.idx) + ":END>"; }

void relay_threaded_case(Ctx& c, Rng& r, bool resources) {
    const auto baseline = open_fds();
    {
        std::cout.setstate(std::ios::failbit);
        EventLoop loop;
        RelayServer server(loop, RelayServerConfig{"127.0.0.1", process_listen_port(), std::chrono::seconds(10)});
        if (!start_on_process_port(server)) { c.violation("harness:relay:server-start-failed", "{}"); return; }
        sockaddr_in sa{};
        socklen_t sl = sizeof sa;
        getsockname(server.listen_fd_, reinterpret_cast<sockaddr*>(&sa), &sl);
        const auto port = ntohs(sa.sin_port);
        const auto with_server = open_fds();
        std::thread loop_thread([&] { loop.run(); });

        const int ntargets = 1 + static_cast<int>(r.below(4));
        const int nconnectors = 1 + static_cast<int>(r.below(6));
        const int ngarbage = static_cast<int>(r.below(3));
        const int npeers = 1 + static_cast<int>(r.below(3));
        const int n = ntargets + nconnectors + ngarbage;
        std::vector<TClient> cl(n);
        for (int i = 0; i < n; ++i) {
            cl[i].idx = i;
            cl[i].role = i < ntargets ? 0 : (i < ntargets + nconnectors ? 1 : 2);
            cl[i].peer = static_cast<int>(r.below(npeers));
            cl[i].self_hex = hex_id(100 + i);
            cl[i].seed = r.next();
        }
        std::atomic<bool> connectors_done{false};
        std::atomic<int> harness_errors{0};
        auto connect_to = [&](TClient& x) {
            x.fd = ::socket(AF_INET, SOCK_STREAM, 0);
            sockaddr_in a{};
            a.sin_family = AF_INET;
            a.sin_port = htons(port);
            inet_pton(AF_INET, "127.0.0.1", &a.sin_addr);
            if (::connect(x.fd, reinterpret_cast<sockaddr*>(&a), sizeof a) != 0) { harness_errors.fetch_add(1); return false; }
            int one = 1;
            setsockopt(x.fd, IPPROTO_TCP, TCP_NODELAY, &one, sizeof one);
            return true;
        };
        auto jitter = [](Rng& q) { const auto k = q.below(4); if (k == 0) ::sched_yield(); else if (k == 1) ::usleep(static_cast<useconds_t>(q.below(400))); };
        auto bridged_dialogue = [&](TClient& x, Rng& q) {
            // bursts of tokens (sometimes more than the socket buffers hold), then the END marker; keep reading
            const auto bursts = 1 + q.below(4);
            const bool abrupt = q.chance(1, 4);
            for (std::uint64_t b = 0; b < bursts; ++b) {
                std::string d;
                const auto cnt = q.chance(1, 6) ? 20000 + q.below(20000) : 1 + q.below(40);
                for (std::uint64_t k = 0; k < cnt; ++k) d += t_token(x);
                if (!t_send(x, d)) return;
                jitter(q);
                if (!t_read(x, 0)) return;
                if (abrupt && b == bursts / 2) {
                    if (q.chance(1, 2)) { linger lg{1, 0}; setsockopt(x.fd, SOL_SOCKET, SO_LINGER, &lg, sizeof lg); }
                    ::close(x.fd);
                    x.fd = -1;
                    x.closed = true;
                    return;
                }
            }
            if (t_send(x, t_end(x))) x.sent_end = true;
        };
        auto target_fn = [&](int i) {
            auto& x = cl[i];
            Rng q(x.seed);
            if (!connect_to(x)) return;
            jitter(q);
            const std::string line = "REGISTER " + spell(q, hex_id(static_cast<unsigned>(x.peer))) + "\n";
            const auto cut = q.below(line.size());
            if (!t_send(x, line.substr(0, cut))) return;
            jitter(q);
            if (!t_send(x, line.substr(cut))) return;
            bool talked = false;
            while (true) {
                const bool last_round = connectors_done.load();
                if (!t_read(x, 20)) return;   // EOF: the relay closed us (bridge ended, or displaced)
                if (!talked) {
                    const auto b = x.rx.find("BEGIN ");
                    if (b != std::string::npos) {
                        const auto nl = x.rx.find('\n', b);
                        if (nl != std::string::npos && x.rx.size() >= nl + 1 + 32) { talked = true; bridged_dialogue(x, q); if (x.closed) return; }
                    }
                }
                if (last_round) return;
            }
        };
        auto connector_fn = [&](int i) {
            auto& x = cl[i];
            Rng q(x.seed);
            if (!connect_to(x)) return;
            for (int attempt = 0; attempt < 4 && !x.reply_ok; ++attempt) {
                jitter(q);
                const auto before = x.rx.size();
                if (!t_send(x, "CONNECT " + x.self_hex + " " + spell(q, hex_id(static_cast<unsigned>(x.peer))) + "\n")) return;
                for (int w = 0; w < 500 && x.rx.find('\n', before) == std::string::npos; ++w) if (!t_read(x, 20)) return;
                if (x.rx.compare(before, 3, "OK\n") == 0) x.reply_ok = true;
                else ::usleep(static_cast<useconds_t>(300 + q.below(1500)));
            }
            if (!x.reply_ok) {
                // refused: whatever it sends now must reach nobody
                if (q.chance(1, 2)) t_send(x, t_token(x) + t_token(x));
                return;
            }
            const auto id = identity_bytes(i);
            const auto cut = q.below(33);
            if (!t_send(x, id.substr(0, cut))) return;
            jitter(q);
            if (!t_send(x, id.substr(cut))) return;
            bridged_dialogue(x, q);
            if (x.closed) return;
            // wait for the partner's END or EOF, bounded; the verdict is taken after the loop is stopped
            for (int w = 0; w < 150; ++w) {
                if (x.rx.find(":END>") != std::string::npos) break;
                if (!t_read(x, 20)) break;
            }
        };
        auto garbage_fn = [&](int i) {
            auto& x = cl[i];
            Rng q(x.seed);
            if (!connect_to(x)) return;
            const auto k = q.below(5);
            std::string bytes;
            if (k == 0) bytes.assign(1 + q.below(70000), 'A');
            else if (k == 1) { auto b = q.bytes(1 + q.below(300)); bytes.assign(b.begin(), b.end()); }
            else if (k == 2) bytes = "REGISTER " + hex_id(static_cast<unsigned>(x.peer)).substr(0, q.below(64)) + "\n";
            else if (k == 3) bytes = "CONNECT " + x.self_hex + " " + hex_id(static_cast<unsigned>(x.peer)) + "\n" + identity_bytes(i).substr(0, q.below(32));   // claims a target, never completes
            else bytes = "CONNECT a b\nPONG\n\n";
            // (no token after a partial identity: its bytes would legitimately become identity bytes)
            t_send(x, k == 3 ? bytes : bytes + t_token(x));
            jitter(q);
            t_read(x, 5);
            if (q.chance(1, 2)) { ::close(x.fd); x.fd = -1; x.closed = true; }
        };
        std::vector<std::thread> tt, tc;
        for (int i = 0; i < n; ++i) {
            if (cl[i].role == 0) tt.emplace_back(target_fn, i);
            else if (cl[i].role == 1) tc.emplace_back(connector_fn, i);
            else tc.emplace_back(garbage_fn, i);
        }
        for (auto& t : tc) t.join();
        connectors_done.store(true);
        for (auto& t : tt) t.join();
        loop.stop();
        loop_thread.join();
        if (harness_errors.load()) { c.violation("harness:relay:connect-failed", "{}"); return; }

        // ---- single-threaded from here: serve what is still pending, drain the client sides
        // bytes handed to the kernel but not yet in the receiver's queue (loopback delivery is deferred to softirq context and
        // can lag on a loaded machine): the send queue of either end still holds them until they are acknowledged
        auto in_flight = [&] {
            long total = 0;
            auto outq = [&](int fd) { int v = 0; if (fd >= 0 && ioctl(fd, TIOCOUTQ, &v) == 0 && v > 0) total += v; };
            for (auto& x : cl) if (!x.saw_eof) outq(x.fd);   // a connection the relay has ended delivers nothing any more
            for (auto& [fd, sp] : server.sessions_) { (void)sp; outq(fd); }
            return total;
        };
        auto dump_sockets = [&] {
            std::string o;
            for (auto& x : cl) {
                int q = 0, a = 0;
                if (x.fd >= 0) { ioctl(x.fd, TIOCOUTQ, &q); ioctl(x.fd, FIONREAD, &a); }
                o += "c" + std::to_string(x.idx) + "[role" + std::to_string(x.role) + " fd" + std::to_string(x.fd) + " outq" + std::to_string(q) + " inq" + std::to_string(a) + " eof" + std::to_string(x.saw_eof) + " ok" + std::to_string(x.reply_ok) + " sent" + std::to_string(x.sent.size()) + " end" + std::to_string(x.sent_end) + "] ";
            }
            for (auto& [fd, sp] : server.sessions_) {
                int q = 0, a = 0;
                ioctl(fd, TIOCOUTQ, &q); ioctl(fd, FIONREAD, &a);
                auto pp = sp->partner.lock();
                o += "s" + std::to_string(fd) + "[state" + std::to_string(static_cast<int>(sp->state)) + " outq" + std::to_string(q) + " inq" + std::to_string(a) + " wb" + std::to_string(sp->write_buffer.size()) + " rb" + std::to_string(sp->read_buffer.size()) + " partner" + std::to_string(pp ? pp->fd : -1) + " closing" + std::to_string(sp->closing) + "] ";
            }
            return o;
        };
        bool delivery_timeout = false;
        auto drain = [&] {
            int idle_waits = 0;
            for (int round = 0; round < 100000; ++round) {
                bool any = false;
                for (auto& x : cl) if (x.fd >= 0) { const auto before = x.rx.size(); t_read(x, 0); if (x.rx.size() != before) any = true; }
                server.accept_new_clients();
                std::vector<std::shared_ptr<RelayServer::ClientSession>> ss;
                for (auto& [fd, sp] : server.sessions_) { (void)fd; ss.push_back(sp); }
                for (auto& sp : ss) {
                    if (sp->closing) continue;
                    int avail = 0;
                    ioctl(sp->fd, FIONREAD, &avail);
                    pollfd p{sp->fd, POLLIN | POLLRDHUP, 0};
                    poll(&p, 1, 0);
                    if (avail > 0 || (p.revents & (POLLRDHUP | POLLHUP | POLLERR))) { server.on_client_event(sp, EventLoop::kEventReadable); any = true; }
                    if (!sp->closing && !sp->write_buffer.empty()) {
                        const auto before = sp->write_buffer.size();
                        server.on_client_event(sp, EventLoop::kEventWritable);
                        if (sp->closing || sp->write_buffer.size() != before) any = true;
                    }
                }
                if (any) { idle_waits = 0; continue; }
                if (in_flight() == 0) return;
                c.note("threaded.waits-for-loopback-delivery");
                if (++idle_waits > 40000) { delivery_timeout = true; return; }   // 20 s without any progress: the harness cannot decide
                ::usleep(500);
            }
        };
        drain();
        if (delivery_timeout) {
            std::string who;
            for (auto& x : cl) { int v = 0; if (x.fd >= 0 && !x.saw_eof && ioctl(x.fd, TIOCOUTQ, &v) == 0 && v > 0) who += "client" + std::to_string(x.idx) + "(role" + std::to_string(x.role) + ",eof" + std::to_string(x.saw_eof) + "):" + std::to_string(v) + " "; }
            for (auto& [fd, sp] : server.sessions_) { int v = 0; if (ioctl(fd, TIOCOUTQ, &v) == 0 && v > 0) who += "session(state" + std::to_string(static_cast<int>(sp->state)) + ",wb" + std::to_string(sp->write_buffer.size()) + "):" + std::to_string(v) + " "; }
            c.violation("harness:relay:loopback-delivery-timeout", J().kv("mode", "threaded").kv("who", who).str());
            return;
        }
        c.note("threaded.runs");

        // Completeness is an "eventually, while both stay connected" statement.  The drain above ends when nothing observable is
        // pending; to keep kernel latency the harness cannot observe from ever turning into a verdict, a direction that still
        // misses its END marker gets more (bounded) time before it is judged: only bytes that never arrive are a loss.
        auto some_direction_incomplete = [&] {
            for (int x = 0; x < n; ++x) for (int y = 0; y < n; ++y) {
                if (x == y || cl[x].closed || cl[y].closed || !cl[y].sent_end || cl[x].send_failed || cl[y].send_failed) continue;
                if (cl[x].rx.find("<" + std::to_string(y) + ":") == std::string::npos) continue;
                if (cl[x].rx.find(t_end(cl[y])) == std::string::npos) return true;
            }
            return false;
        };
        for (int retry = 0; retry < 100 && some_direction_incomplete(); ++retry) {
            c.note("threaded.settle-retries");
            ::usleep(100000);
            drain();
            if (!some_direction_incomplete()) c.note("threaded.late-deliveries-resolved-by-waiting");
        }
        // ---- attribution (C25)
        std::size_t bridges = 0;
        for (int x = 0; x < n; ++x) {
            if (!tokens_from(cl[x].rx, x).empty()) c.violation("C25:delivery:client-received-its-own-bytes", J().kv("client", x).kv("mode", "threaded").str());
            std::vector<int> senders;
            for (int y = 0; y < n; ++y) if (y != x && !tokens_from(cl[x].rx, y).empty()) senders.push_back(y);
            if (senders.size() > 1) c.violation("C25:delivery:bytes-from-two-senders-on-one-connection", J().kv("client", x).kv("first", senders[0]).kv("second", senders[1]).str());
            std::size_t begins = 0;
            for (std::size_t pos = 0; (pos = cl[x].rx.find("BEGIN ", pos)) != std::string::npos; ++pos) ++begins;
            if (cl[x].role == 0 && begins > 1) c.violation("C25:pairing:target-claimed-twice", J().kv("client", x).kv("begin_lines", begins).str());
            for (int y : senders) {
                c.note("threaded.token-streams-checked");
                const TClient& t = cl[x].role == 0 ? cl[x] : cl[y];
                const TClient& k = cl[x].role == 0 ? cl[y] : cl[x];
                const bool legit = t.role == 0 && k.role == 1 && k.reply_ok && k.peer == t.peer;
                if (!legit) { c.violation("C25:delivery:bytes-between-clients-that-were-never-bridged", J().kv("from", y).kv("to", x).kv("from_role", cl[y].role).kv("to_role", cl[x].role).str()); continue; }
                if (cl[x].role == 0) {
                    const std::string want = "BEGIN " + cl[y].self_hex + "\n" + identity_bytes(y);
                    const auto at = cl[x].rx.find(want);
                    const auto first_tok = cl[x].rx.find("<" + std::to_string(y) + ":");
                    if (at == std::string::npos || at > first_tok) c.violation("C25:pairing:data-before-or-without-begin-and-identity", J().kv("target", x).kv("connector", y).str());
                }
                // the other direction may only come from x
                for (int z = 0; z < n; ++z) if (z != x && z != y && !tokens_from(cl[y].rx, z).empty()) c.violation("C25:pairing:partner-link-not-symmetric", J().kv("a", x).kv("b", y).kv("third", z).kv("mode", "threaded").str());
                // in order, nothing skipped: what x holds from y is a prefix of what y sent
                const auto got = tokens_from(cl[x].rx, y);
                std::size_t ntok = 0;
                bool prefix_ok = true;
                for (auto& g : got) {
                    if (g == t_end(cl[y])) continue;
                    if (ntok >= cl[y].sent.size() || cl[y].sent[ntok] != g) { prefix_ok = false; break; }
                    ++ntok;
                }
                if (!prefix_ok) c.violation("C25:delivery:tokens-out-of-order-or-duplicated", J().kv("from", y).kv("to", x).kv("at", ntok).kv("mode", "threaded").str());
                c.note("threaded.tokens-delivered", ntok);
                // both ends stayed: everything y sent, END included, has arrived now that the relay is quiescent
                if (!cl[x].closed && !cl[y].closed && cl[y].sent_end && !cl[x].send_failed && !cl[y].send_failed) {
                    c.note("threaded.complete-directions-checked");
                    if (ntok != cl[y].sent.size() || cl[x].rx.find(t_end(cl[y])) == std::string::npos)
                        c.violation("C25:delivery:bridged-bytes-lost-or-reordered", J().kv("from", y).kv("to", x).kv("sent", cl[y].sent.size()).kv("received", ntok).kv("mode", "threaded")
                                        .kv("receiver_saw_eof", cl[x].saw_eof).kv("receiver_errno", cl[x].eof_errno).kv("sender_saw_eof", cl[y].saw_eof).kv("sender_errno", cl[y].eof_errno)
                                        .kv("clients", n).kv("sessions_left", server.sessions_.size()).kv("socket_state", dump_sockets())
                                        .kv("receiver_rx_bytes", cl[x].rx.size()).kv("receiver_rx_tail", cl[x].rx.substr(cl[x].rx.size() > 120 ? cl[x].rx.size() - 120 : 0)).str());
                }
                if (x < y) ++bridges;
            }
        }
        c.note("threaded.bridges-observed", bridges);
        std::uint64_t sig = hx::mix(hx::mix(ntargets, nconnectors), hx::mix(ngarbage, npeers));
        sig = hx::mix(sig, bridges);
        for (auto& x : cl) sig = hx::mix(sig, hx::mix(x.closed, x.reply_ok));

        if (resources) {
            // ---- everybody leaves; then nothing may remain (C26)
            for (auto& x : cl) if (x.fd >= 0) { if (r.chance(1, 3)) { linger lg{1, 0}; setsockopt(x.fd, SOL_SOCKET, SO_LINGER, &lg, sizeof lg); } ::close(x.fd); x.fd = -1; }
            drain();
            // every client end is closed now, so every remaining server-side socket is going to see FIN or RST; on a loaded machine
            // that can arrive late: wait for it per socket (bounded), then serve the event
            for (int round = 0; round < 3 && !delivery_timeout; ++round) {
                std::vector<std::shared_ptr<RelayServer::ClientSession>> ss;
                for (auto& [fd, sp] : server.sessions_) { (void)fd; ss.push_back(sp); }
                for (auto& sp : ss) {
                    if (sp->closing) continue;
                    pollfd p{sp->fd, POLLIN | POLLRDHUP, 0};
                    if (poll(&p, 1, 20000) <= 0) { delivery_timeout = true; break; }
                    server.on_client_event(sp, EventLoop::kEventReadable);
                }
            }
            if (delivery_timeout) { c.violation("harness:relay:loopback-delivery-timeout", J().kv("mode", "threaded").kv("phase", "release").str()); return; }
            c.note("release.all-clients-left");
            if (!server.sessions_.empty()) c.violation("C26:release:sessions-remain-after-all-clients-left", J().kv("sessions", server.sessions_.size()).kv("mode", "threaded").str());
            if (!server.registered_.empty()) c.violation("C26:release:registrations-remain-after-all-clients-left", J().kv("registrations", server.registered_.size()).kv("mode", "threaded").str());
            const auto now_fds = open_fds();
            std::size_t extra = 0;
            for (int fd : now_fds) if (!with_server.count(fd)) ++extra;
            if (extra) c.violation("C26:release:client-descriptors-still-open", J().kv("count", extra).kv("mode", "threaded").str());
        } else {
            for (auto& x : cl) if (x.fd >= 0) { ::close(x.fd); x.fd = -1; }
        }
        c.sig(sig);
        if (c.cur_case % 97 == 0) c.sample(J().kv("mode", "threaded").kv("targets", ntargets).kv("connectors", nconnectors).kv("garbage", ngarbage).kv("ids", npeers).kv("bridges", bridges).str());
        server.stop();
    }
    if (resources) {
        const auto after = open_fds();
        for (int fd : after) if (!baseline.count(fd)) { c.violation("C26:release:descriptor-leak-after-server-stop", J().kv("fd", fd).kv("mode", "threaded").str()); break; }
    }
}
void c25t_case(Ctx& c, Rng& r) { relay_threaded_case(c, r, false); }
void c26t_case(Ctx& c, Rng& r) { relay_threaded_case(c, r, true); }
HX_PROPERTY("C25t", c25t_case);
HX_PROPERTY("C26t", c26t_case);


struct Init { Init() { signal(SIGPIPE, SIG_IGN); } } g_init;

}  // namespace

// Control-plane monitors on an in-process ControlServer + Node driven over loopback:
//   C27 token gates STORE/FETCH/STOP      C28 STORE admission (size, TTL, PoW, rate limit)   C02c TTL header window
//   C29 responses reach the client intact  C35c hostile control bytes never take the daemon down
#include <arpa/inet.h>
#include <netinet/in.h>
#include <netinet/tcp.h>
#include <poll.h>
#include <signal.h>
#include <sys/socket.h>
#include <unistd.h>

#include <algorithm>
#include <cctype>
#include <atomic>
#include <filesystem>
#include <map>
#include <set>
#include <sstream>

#include "common/gen_manifest.hpp"
#include "common/hx.hpp"
#include "common/node_fx.hpp"
#include "common/ref_crypto.hpp"
#include "common/vclock.hpp"
#include "ephemeralnet/daemon/ControlPlane.hpp"
#include "ephemeralnet/security/StoreProof.hpp"
#include "tu_control.hpp"
#include "tu_node.hpp"

using namespace ephemeralnet;
using hx::Ctx;
using hx::J;
using hx::Rng;
using std::chrono::nanoseconds;
using std::chrono::seconds;
namespace fs = std::filesystem;

namespace {

constexpr std::int64_t NS = 1'000'000'000LL;

std::size_t lz_ref(std::span<const std::uint8_t> d) {
    std::size_t n = 0;
    for (auto b : d) for (int bit = 7; bit >= 0; --bit) { if (b & (1u << bit)) return n; ++n; }
    return n;
}

Config base_config(Rng& r) {
    Config cfg{};
    cfg.identity_seed = static_cast<std::uint32_t>(r.next());
    cfg.announce_pow_difficulty = 0;
    cfg.handshake_pow_difficulty = 0;
    cfg.store_pow_difficulty = 0;
    cfg.nat_stun_enabled = false;
    cfg.relay_enabled = false;
    cfg.shard_threshold = 2;
    cfg.shard_total = 3;
    cfg.min_manifest_ttl = seconds(30);
    cfg.max_manifest_ttl = seconds(21600);
    return cfg;
}

struct Daemon {
    Config cfg;
    std::unique_ptr<Node> node;
    std::mutex node_mutex;
    std::atomic<int> stop_calls{0};
    std::unique_ptr<daemon::ControlServer> server;
    std::uint16_t port{0};
    explicit Daemon(const Config& c) : cfg(c) {
        node = std::make_unique<Node>(fx::peer_id_n(1, 0xE1), cfg);
        server = std::make_unique<daemon::ControlServer>(*node, node_mutex, [this] { ++stop_calls; });
        // One listening port per worker process, reused from case to case (the server sets SO_REUSEADDR): a fresh ephemeral
        // port per case leaves every one of them blocked for a minute by the TIME_WAIT remains of its connections, and a
        // long run eats the whole ephemeral range (which then fails every other program on the machine, too).
        static std::uint16_t process_port = 0;
        bool started = false;
        if (process_port) {
            try { server->start("127.0.0.1", process_port); started = true; } catch (const std::exception&) { process_port = 0; }
        }
        if (!started) {
            server->start("127.0.0.1", 0);
            process_port = tu_control::bound_port(*server);
        }
        port = tu_control::bound_port(*server);
    }
    ~Daemon() { server->stop(); }
};

struct RawResponse {
    bool connected{false};
    bool complete{false};          // header block terminated
    std::string head;
    std::vector<std::pair<std::string, std::string>> lines;   // key:value lines, first-colon split, in order
    std::vector<std::uint8_t> payload;
    bool timed_out{false};
    std::string field(const std::string& k) const { for (auto& [a, b] : lines) if (a == k) return b; return {}; }
    bool ok() const { return field("STATUS") == "OK"; }
    std::string code() const { return field("CODE"); }
};

int connect_to(std::uint16_t port) {
    int fd = ::socket(AF_INET, SOCK_STREAM, 0);
    sockaddr_in a{};
    a.sin_family = AF_INET;
    a.sin_port = htons(port);
    inet_pton(AF_INET, "127.0.0.1", &a.sin_addr);
    if (::connect(fd, reinterpret_cast<sockaddr*>(&a), sizeof a) != 0) { ::close(fd); return -1; }
    int one = 1;
    setsockopt(fd, IPPROTO_TCP, TCP_NODELAY, &one, sizeof one);
    return fd;
}
bool send_all_fd(int fd, const void* p, std::size_t n) {
    const auto* b = static_cast<const char*>(p);
    while (n) { const auto w = ::send(fd, b, n, MSG_NOSIGNAL); if (w <= 0) return false; b += w; n -= static_cast<std::size_t>(w); }
    return true;
}
RawResponse read_response(int fd, int timeout_ms = 10000) {
    RawResponse r;
    r.connected = true;
    std::string buf;
    std::size_t header_end = std::string::npos;
    auto fill = [&]() -> bool {
        pollfd p{fd, POLLIN, 0};
        const int pr = poll(&p, 1, timeout_ms);
        if (pr <= 0) { r.timed_out = true; return false; }
        char tmp[65536];
        const auto n = ::recv(fd, tmp, sizeof tmp, 0);
        if (n <= 0) return false;
        buf.append(tmp, static_cast<std::size_t>(n));
        return true;
    };
    while (true) {
        // the header block ends at the first empty line
        std::size_t pos = 0;
        bool found = false;
        while (true) {
            const auto nl = buf.find('\n', pos);
            if (nl == std::string::npos) break;
            if (nl == pos || (nl == pos + 1 && buf[pos] == '\r')) { header_end = nl + 1; found = true; break; }
            pos = nl + 1;
        }
        if (found) break;
        if (!fill()) break;
    }
    if (header_end == std::string::npos) { r.head = buf; return r; }
    r.complete = true;
    r.head = buf.substr(0, header_end);
    std::istringstream is(r.head);
    std::string line;
    while (std::getline(is, line)) {
        if (!line.empty() && line.back() == '\r') line.pop_back();
        if (line.empty()) break;
        const auto c = line.find(':');
        if (c == std::string::npos) r.lines.emplace_back(line, "");
        else r.lines.emplace_back(line.substr(0, c), line.substr(c + 1));
    }
    std::size_t want = 0;
    const auto pl = r.field("PAYLOAD-LENGTH");
    if (!pl.empty()) want = static_cast<std::size_t>(std::strtoull(pl.c_str(), nullptr, 10));
    std::string rest = buf.substr(header_end);
    while (rest.size() < want) { buf.clear(); if (!fill()) break; rest += buf; }
    r.payload.assign(rest.begin(), rest.begin() + static_cast<std::ptrdiff_t>(std::min(rest.size(), want)));
    return r;
}
RawResponse raw_request(std::uint16_t port, const std::string& head, const std::vector<std::uint8_t>& body = {}, bool send_body = true) {
    const int fd = connect_to(port);
    if (fd < 0) return {};
    send_all_fd(fd, head.data(), head.size());
    if (send_body && !body.empty()) send_all_fd(fd, body.data(), body.size());
    auto r = read_response(fd);
    ::close(fd);
    return r;
}
std::string headers(std::vector<std::pair<std::string, std::string>> h, Rng* shuffle = nullptr) {
    if (shuffle) std::shuffle(h.begin(), h.end(), *shuffle);
    // The daemon upper-cases header names, the command word and the stream mode before it looks at them, so
    // "stop", "Stop" and "STOP" are one command: one request in three is written in another spelling.
    if (shuffle && shuffle->chance(1, 3)) {
        const int style = static_cast<int>(shuffle->below(3));   // all lower / random per letter / first letter only
        auto respell = [&](std::string& w) {
            for (std::size_t i = 0; i < w.size(); ++i) {
                const bool lower = style == 0 || (style == 1 && shuffle->chance(1, 2)) || (style == 2 && i > 0);
                if (lower) w[i] = static_cast<char>(std::tolower(static_cast<unsigned char>(w[i])));
            }
        };
        for (auto& [k, v] : h) {
            const bool word_value = k == "COMMAND" || k == "STREAM";
            respell(k);
            if (word_value) respell(v);
        }
    }
    std::string s;
    for (auto& [k, v] : h) s += k + ":" + v + "\n";
    return s + "\n";
}
bool ping_ok(std::uint16_t port) {
    const auto r = raw_request(port, "COMMAND:PING\n\n");
    return r.complete && r.ok();
}

std::string state_snapshot(Node& n) {
    std::map<std::string, std::string> m;
    for (auto& [k, v] : n.manifest_cache_) m["manifest/" + k] = std::to_string(v.expires_at.time_since_epoch().count());
    for (auto& [k, v] : n.dht_.shard_table_) m["shards/" + k] = std::to_string(v.expires_at.time_since_epoch().count());
    for (auto& [k, v] : n.dht_.table_) m["locator/" + k] = std::to_string(v.holders.size());
    for (auto& [k, v] : n.chunk_store_.chunks_) m["chunk/" + k] = std::to_string(v.data.size());
    for (auto& [k, v] : n.swarm_plans_) m["plan/" + k] = std::to_string(v.assignments.size());
    std::string out;
    for (auto& [k, v] : m) out += k + "=" + v + ";";
    return out;
}

std::string random_token(Rng& r) {
    static const char alphabet[] = "abcdefghijklmnopqrstuvwxyzABCDEFGHIJKLMNOPQRSTUVWXYZ0123456789-_.:/+= ";
    std::string t;
    const auto n = 6 + r.below(24);
    for (std::uint64_t i = 0; i < n; ++i) t.push_back(alphabet[r.below(sizeof alphabet - 1)]);
    if (t.front() == ' ') t.front() = 'x';
    if (t.back() == ' ') t.back() = 'y';
    bool has_alpha = false;
    for (char ch : t) has_alpha |= std::isalpha(static_cast<unsigned char>(ch)) != 0;
    if (!has_alpha) t += "Q";
    return t;
}

// ------------------------------------------------------------------------------------ C27
void c27_case(Ctx& c, Rng& r) {
    Config cfg = base_config(r);
    std::string token = random_token(r);
    if (r.chance(1, 4)) {
        // long secrets (a hex dump of 128 random bytes is 256 characters): lengths around the powers of two
        static const std::size_t lens[] = {255, 256, 257, 300, 512, 513, 1024};
        const auto want = lens[r.below(7)];
        while (token.size() < want) token += random_token(r);
        token.resize(want);
        if (token.back() == ' ') token.back() = 'y';
    }
    cfg.control_token = token;
    Daemon d(cfg);
    if (!d.port) { c.violation("harness:control:no-port", "{}"); return; }
    const auto held_id = fx::chunk_id_n(1);
    const auto held_payload = r.bytes(40 + r.below(200));
    const auto held_manifest = d.node->store_chunk(held_id, held_payload, seconds(600));
    const auto held_uri = protocol::encode_manifest(held_manifest);
    Config dcfg = base_config(r);
    Node donor(fx::peer_id_n(9, 0xE2), dcfg);
    const auto foreign_uri = protocol::encode_manifest(donor.store_chunk(fx::chunk_id_n(2), r.bytes(32), seconds(600)));
    const std::string outdir = c.scratch + "/c27-" + std::to_string(c.cur_case);
    fs::create_directories(outdir);
    std::uint64_t sig = 0;
    const int nreq = 10;
    for (int q = 0; q < nreq; ++q) {
        const auto cmd = r.below(4);   // 0 STORE, 1 FETCH stream, 2 FETCH out, 3 STOP
        const auto variant = r.below(11);
        std::optional<std::string> tok;
        const char* vname = "absent";
        switch (variant) {
            case 0: break;
            case 1: tok = random_token(r); vname = "wrong"; break;
            case 2: tok = token.substr(0, token.size() - 1); vname = "proper-prefix"; break;
            case 3: tok = token.substr(1); vname = "proper-suffix"; break;
            case 4: { std::string t = token; for (auto& ch : t) ch = static_cast<char>(std::isupper(static_cast<unsigned char>(ch)) ? std::tolower(ch) : std::toupper(ch)); tok = t; vname = "case-changed"; break; }
            case 5: tok = r.chance(1, 2) ? token + " " : " " + token; vname = "extra-whitespace"; break;
            case 6: tok = ""; vname = "empty"; break;
            case 7: tok = token + token; vname = "doubled"; break;
            case 9: {
                // same bytes as far as they go, length off by 1..300 or by a multiple of 256 / 2^k (extended with filler)
                static const std::size_t extra[] = {1, 2, 255, 256, 257, 512, 768, 1024, 4096, 8192};
                tok = token + std::string(r.chance(1, 2) ? extra[r.below(10)] : 1 + r.below(300), r.chance(1, 2) ? 'A' : token.back());
                vname = "suffix-extended";
                break;
            }
            case 10: {
                // a prefix, any length from empty up to one short; for long secrets also exactly 256 / 512 shorter
                std::size_t keep = r.below(token.size());
                if (token.size() > 256 && r.chance(1, 2)) keep = token.size() - 256;
                if (token.size() > 512 && r.chance(1, 4)) keep = token.size() - 512;
                tok = token.substr(0, keep);
                vname = "prefix-any-length";
                break;
            }
            default: tok = token; vname = "exact";
        }
        const bool authorised = variant == 8;
        if (authorised && cmd == 3) continue;   // an authorised STOP is exercised once at the end
        std::vector<std::pair<std::string, std::string>> h;
        std::vector<std::uint8_t> body;
        const std::string outpath = outdir + "/out-" + std::to_string(q) + ".bin";
        const char* cname = "STORE";
        if (cmd == 0) {
            body = r.bytes(20 + r.below(100));
            h = {{"COMMAND", "STORE"}, {"PAYLOAD-LENGTH", std::to_string(body.size())}, {"TTL", "600"}};
        } else if (cmd == 1) {
            h = {{"COMMAND", "FETCH"}, {"MANIFEST", r.chance(1, 2) ? held_uri : foreign_uri}, {"STREAM", "client"}};
            cname = "FETCH-stream";
        } else if (cmd == 2) {
            h = {{"COMMAND", "FETCH"}, {"MANIFEST", r.chance(1, 2) ? held_uri : foreign_uri}, {"OUT", outpath}};
            cname = "FETCH-out";
        } else {
            h = {{"COMMAND", "STOP"}};
            cname = "STOP";
        }
        if (tok) h.emplace_back(r.chance(1, 8) ? "token" : "TOKEN", *tok);
        const bool uses_foreign = h.size() > 1 && h[1].second == foreign_uri;
        const auto before = state_snapshot(*d.node);
        const auto resp = raw_request(d.port, headers(h, &r), body);
        const auto after = state_snapshot(*d.node);
        c.note(std::string("requests.") + cname);
        c.note(authorised ? "requests.authorised" : "requests.unauthorised");
        const auto desc = [&] { return J().kv("command", cname).kv("token_variant", vname).kv("status", resp.field("STATUS")).kv("code", resp.code()).kv("foreign_manifest", uses_foreign); };
        if (!resp.complete) { c.violation("C27:daemon:no-response", desc().str()); continue; }
        if (!authorised) {
            if (resp.ok()) c.violation(std::string("C27:unauthorised-request-succeeded:") + cname, desc().str());
            else if (resp.code().find("UNAUTH") == std::string::npos) c.violation(std::string("C27:unauthorised-request-not-refused-with-authentication-error:") + cname, desc().str());
            if (after != before) c.violation(std::string("C27:unauthorised-request-changed-state:") + cname, desc().kv("before", before.substr(0, 300)).kv("after", after.substr(0, 300)).str());
            if (cmd == 2 && fs::exists(outpath)) c.violation("C27:unauthorised-fetch-wrote-file", desc().str());
            if (d.stop_calls.load() != 0) c.violation("C27:unauthorised-stop-invoked-shutdown", desc().str());
            if (tu_control::transport_stop_requested(*d.server)) c.violation("C27:unauthorised-stop-stopped-transport", desc().str());
            if (!ping_ok(d.port)) c.violation("C27:daemon:not-serving-after-unauthorised-request", desc().str());
        } else {
            // with the exact token the same request must work (guards against a monitor that passes because everything fails)
            const bool should_succeed = cmd == 0 || !uses_foreign;
            c.note("requests.authorised-expected-to-succeed", should_succeed);
            if (should_succeed && !resp.ok()) c.violation(std::string("C27:authorised-request-refused:") + cname, desc().str());
            if (cmd == 1 && resp.ok() && resp.payload != held_payload) c.violation("C27:authorised-fetch-wrong-bytes", desc().str());
            if (cmd == 2 && resp.ok()) {
                std::error_code ec;
                if (!fs::exists(outpath, ec)) c.violation("C27:authorised-fetch-no-file", desc().str());
            }
        }
        sig = hx::mix(sig, hx::mix(cmd, variant));
    }
    // finally: authorised STOP works
    if (r.chance(1, 2)) {
        const auto resp = raw_request(d.port, headers({{"COMMAND", "STOP"}, {"TOKEN", token}}, &r));
        c.note("requests.authorised-stop");
        if (!resp.ok() || d.stop_calls.load() != 1) c.violation("C27:authorised-stop-did-not-stop", J().kv("status", resp.field("STATUS")).kv("code", resp.code()).kv("stop_calls", d.stop_calls.load()).str());
    }
    std::error_code ec;
    fs::remove_all(outdir, ec);
    c.sig(sig);
    if (c.cur_case % 97 == 0) c.sample(J().kv("token_len", token.size()).kv("requests", nreq).str());
}
HX_PROPERTY("C27", c27_case);

// ------------------------------------------------------------------------------------ C28 (+ C02 control-plane TTL)
void c28_scenarios(Ctx& c, Rng& r, std::uint64_t scenario, const std::string& pfx) {
    Config cfg = base_config(r);
    std::uint64_t sig = scenario;
    if (scenario == 0) {
        // payload cap: refused before any body byte is sent
        static const std::size_t caps[] = {1, 100, 4096, 100000, 1 << 20};
        const std::size_t cap = caps[r.below(5)];
        cfg.control_stream_max_bytes = cap;
        Daemon d(cfg);
        for (int q = 0; q < 6; ++q) {
            const auto k = r.below(9);
            std::string declared;
            bool over = true;
            if (k == 0) { declared = std::to_string(cap + 1); }
            else if (k == 1) { declared = std::to_string(cap * 2 + 7); }
            else if (k == 2) { declared = "9223372036854775808"; }
            else if (k == 3) { declared = "18446744073709551615"; }
            else if (k == 4) { declared = "18446744073709551616"; }           // does not fit 64 bits
            else if (k == 5) { declared = "99999999999999999999999999"; }
            else if (k == 6) { declared = std::to_string(cap); over = false; }
            else if (k == 7) { declared = std::to_string(cap > 1 ? cap - 1 : 1); over = false; }
            else { declared = std::to_string(r.below(cap) + 1); over = false; }
            const auto before = state_snapshot(*d.node);
            if (over) {
                const auto resp = raw_request(d.port, headers({{"COMMAND", "STORE"}, {"TTL", "600"}, {"PAYLOAD-LENGTH", declared}}, &r), {}, false);
                c.note("size.oversized-declarations");
                const auto desc = J().kv("cap", cap).kv("declared", declared).kv("status", resp.field("STATUS")).kv("code", resp.code()).str();
                if (!resp.complete) c.violation(resp.timed_out ? "C28:size:oversized-store-not-refused-before-body" : "C28:size:no-response-to-oversized-store", desc);
                else if (resp.ok()) c.violation("C28:size:oversized-store-accepted", desc);
                if (state_snapshot(*d.node) != before) c.violation("C28:size:oversized-store-changed-state", desc);
            } else {
                const auto n = static_cast<std::size_t>(std::strtoull(declared.c_str(), nullptr, 10));
                const auto body = r.bytes(n);
                const auto resp = raw_request(d.port, headers({{"COMMAND", "STORE"}, {"TTL", "600"}, {"PAYLOAD-LENGTH", declared}}, &r), body);
                c.note("size.within-cap-stores");
                if (!resp.ok()) c.violation("C28:size:store-within-cap-refused", J().kv("cap", cap).kv("declared", declared).kv("code", resp.code()).str());
                vclk::advance_s(6);
            }
            sig = hx::mix(sig, k);
        }
    } else if (scenario == 1) {
        // TTL window (control-plane part of C02): accepted iff the header parses and min <= ttl <= max
        const std::int64_t mn = 1 + static_cast<std::int64_t>(r.below(100));
        const std::int64_t mx = mn + static_cast<std::int64_t>(r.below(5000));
        cfg.min_manifest_ttl = seconds(mn);
        cfg.max_manifest_ttl = seconds(mx);
        cfg.default_chunk_ttl = seconds(mn + (mx - mn) / 2);
        Daemon d(cfg);
        for (int q = 0; q < 6; ++q) {
            const auto k = r.below(17);
            std::optional<std::string> ttl;
            bool want = false;
            auto num = [&](std::int64_t v) { ttl = std::to_string(v); want = v >= mn && v <= mx; };
            if (k >= 14) {
                // values that are an in-window TTL modulo 2^32 / 2^31 / 2^16 / 2^63: far outside the window as numbers
                const std::uint64_t inwin = static_cast<std::uint64_t>(mn + static_cast<std::int64_t>(r.below(static_cast<std::uint64_t>(mx - mn + 1))));
                static const std::uint64_t mod[] = {1ull << 32, 3ull << 32, 1ull << 40, 1ull << 31, 1ull << 16, 1ull << 63, (1ull << 32) * 1000};
                const std::uint64_t v = mod[r.below(7)] + inwin;
                ttl = std::to_string(v);
                want = v >= static_cast<std::uint64_t>(mn) && v <= static_cast<std::uint64_t>(mx);
                c.note("ttl.values-congruent-to-an-in-window-ttl");
            } else
            if (k == 0) num(mn); else if (k == 1) num(mn - 1); else if (k == 2) num(mx); else if (k == 3) num(mx + 1);
            else if (k == 4) num(0); else if (k == 5) { ttl = "-5"; want = false; } else if (k == 6) { ttl = "18446744073709551615"; want = false; }
            else if (k == 7) { ttl = "9223372036854775808"; want = false; } else if (k == 8) { static const char* bad[] = {"abc", "", " 60", "60 ", "6e1", "0x40", "60s", "+60", "60.0"}; ttl = bad[r.below(9)]; want = false; }
            else if (k == 9) { want = true; }   // no TTL header: default applies, which lies inside the window
            else if (k == 10) num(86401); else num(mn + static_cast<std::int64_t>(r.below(static_cast<std::uint64_t>(mx - mn + 1))));
            std::vector<std::pair<std::string, std::string>> h{{"COMMAND", "STORE"}, {"PAYLOAD-LENGTH", "16"}};
            if (ttl) h.emplace_back("TTL", *ttl);
            const auto before_chunks = d.node->chunk_store_.chunks_.size();
            const auto s0 = fx::steady_ns();
            const auto resp = raw_request(d.port, headers(h, &r), r.bytes(16));
            c.note(want ? "ttl.in-window-requests" : "ttl.out-of-window-requests");
            const auto desc = J().kv("min", mn).kv("max", mx).kv("ttl", ttl ? *ttl : std::string("<absent>")).kv("status", resp.field("STATUS")).kv("code", resp.code()).str();
            if (!resp.complete) { c.violation(pfx + ":ttl:no-response", desc); continue; }
            if (resp.ok() != want) c.violation(pfx + (want ? ":ttl:in-window-ttl-refused" : ":ttl:out-of-window-ttl-accepted"), desc);
            if (!want && resp.code().find("TTL") == std::string::npos) c.violation(pfx + ":ttl:refusal-without-ttl-error-code", desc);
            if (!want && d.node->chunk_store_.chunks_.size() != before_chunks) c.violation(pfx + ":ttl:refused-store-left-a-chunk", desc);
            if (want && resp.ok()) {
                // the lifetime actually created lies inside the window
                std::int64_t longest = 0;
                for (auto& [kk, rec] : d.node->chunk_store_.chunks_) longest = std::max<std::int64_t>(longest, rec.expires_at.time_since_epoch().count() - s0);
                if (longest > mx * NS) c.violation(pfx + ":ttl:created-lifetime-above-max", desc);
            }
            vclk::advance_s(6);
            sig = hx::mix(sig, k);
        }
    } else if (scenario == 2) {
        // store proof of work bound to (payload hash, size, sanitised filename)
        const auto dd = static_cast<std::uint8_t>(3 + r.below(6));
        cfg.store_pow_difficulty = dd;
        Daemon d(cfg);
        for (int q = 0; q < 5; ++q) {
            const auto body = r.bytes(1 + r.below(300));
            static const char* paths[] = {"", "report.pdf", "dir/sub/report.pdf", "../x", "/abs/name.bin", "name with space", "a/", ".."};
            const std::string path = paths[r.below(8)];
            const auto hint = security::sanitize_filename_hint(path);
            security::StoreWorkInput in{};
            in.chunk_id = ref::sha256(body);
            in.payload_size = body.size();
            const std::string hint_s = hint ? *hint : std::string{};
            in.filename_hint = hint_s;
            const auto good = security::compute_store_pow(in, dd);
            if (!good) continue;
            const auto k = r.below(6);
            std::optional<std::string> nonce;
            std::vector<std::uint8_t> sent_body = body;
            std::string sent_path = path;
            const char* kname = "valid";
            if (k == 0) nonce = std::to_string(*good);
            else if (k == 1) { nonce = std::to_string(*good + 1 + r.below(1000)); kname = "other-nonce"; }
            else if (k == 2) { nonce = std::to_string(*good); sent_body.push_back(0); kname = "nonce-for-shorter-payload"; }
            else if (k == 3) { nonce = std::to_string(*good); sent_path = path + "x"; kname = "nonce-for-other-filename"; }
            else if (k == 4) { kname = "missing"; }
            else { static const char* bad[] = {"abc", "", "-1", "1e5", "18446744073709551616"}; nonce = bad[r.below(5)]; kname = "malformed"; }
            // reference decision
            bool want = false;
            if (nonce) {
                char* end = nullptr;
                errno = 0;
                const auto v = std::strtoull(nonce->c_str(), &end, 10);
                const bool parsed = !nonce->empty() && *end == 0 && errno == 0 && (*nonce)[0] != '-' && (*nonce)[0] != '+' && (*nonce)[0] != ' ';
                if (parsed) {
                    security::StoreWorkInput in2{};
                    in2.chunk_id = ref::sha256(sent_body);
                    in2.payload_size = sent_body.size();
                    const auto h2 = security::sanitize_filename_hint(sent_path);
                    const std::string h2s = h2 ? *h2 : std::string{};
                    in2.filename_hint = h2s;
                    want = lz_ref(tu_storeproof::digest(in2, v)) >= dd;
                }
            }
            std::vector<std::pair<std::string, std::string>> h{{"COMMAND", "STORE"}, {"PAYLOAD-LENGTH", std::to_string(sent_body.size())}, {"TTL", "600"}};
            if (!sent_path.empty()) h.emplace_back("PATH", sent_path);
            if (nonce) h.emplace_back("STORE-POW", *nonce);
            const auto before = state_snapshot(*d.node);
            const auto resp = raw_request(d.port, headers(h, &r), sent_body);
            c.note(want ? "pow.valid-proofs" : "pow.invalid-proofs");
            const auto desc = J().kv("difficulty", dd).kv("kind", kname).kv("status", resp.field("STATUS")).kv("code", resp.code()).str();
            if (!resp.complete) { c.violation("C28:pow:no-response", desc); continue; }
            if (resp.ok() != want) c.violation(want ? "C28:pow:valid-proof-refused" : "C28:pow:store-accepted-without-valid-proof", desc);
            if (!want && state_snapshot(*d.node) != before) c.violation("C28:pow:refused-store-changed-state", desc);
            vclk::advance_s(6);
            sig = hx::mix(sig, hx::mix(k, dd));
        }
    } else {
        // rate limit per client address, whatever unauthenticated headers vary (no token configured)
        Daemon d(cfg);
        const auto held = d.node->store_chunk(fx::chunk_id_n(1), r.bytes(64), seconds(20000));
        const auto held_uri = protocol::encode_manifest(held);
        const bool fetch_mode = r.chance(1, 3);
        const std::size_t limit = fetch_mode ? 12 : 6;
        std::vector<std::int64_t> accepted_at;
        const auto nreq = 10 + r.below(40);
        for (std::uint64_t q = 0; q < nreq; ++q) {
            std::vector<std::pair<std::string, std::string>> h;
            std::vector<std::uint8_t> body;
            if (fetch_mode) h = {{"COMMAND", "FETCH"}, {"MANIFEST", held_uri}, {"STREAM", "client"}};
            else { body = r.bytes(8 + r.below(24)); h = {{"COMMAND", "STORE"}, {"PAYLOAD-LENGTH", std::to_string(body.size())}, {"TTL", "600"}}; }
            // one request in five is one the daemon refuses for a reason of its own (a TTL it cannot parse or outside the
            // window): whatever happens to it, it must not make room for an extra accepted request
            const bool noise = !fetch_mode && r.chance(1, 5);
            if (noise) {
                static const char* bad_ttl[] = {"abc", "", "-5", "99999999999", "1e3"};
                h[2].second = bad_ttl[r.below(5)];
            }
            const auto vary = r.below(8);
            if (vary >= 5) {
                // headers that belong to other request shapes: an OUT path next to STREAM:client, a file name, a stray STREAM on STORE
                if (fetch_mode) h.emplace_back("OUT", vary == 5 ? c.scratch + "/rate-out-" + std::to_string(q) : (vary == 6 ? std::string("relative-out.bin") : std::string(" ")));
                else if (vary == 5) h.emplace_back("FILENAME", "f" + std::to_string(r.next()) + ".bin");
                else if (vary == 6) h.emplace_back("STREAM", "client");
                else h.emplace_back("OUT", c.scratch + "/rate-store-out");
            }
            else if (vary == 0) h.emplace_back("TOKEN", "t" + std::to_string(r.next()));
            else if (vary == 1) h.emplace_back("TOKEN", "");
            else if (vary == 2) h.emplace_back("X-CLIENT", std::to_string(r.next()));
            else if (vary == 3) { h.emplace_back("TOKEN", "same"); }
            const auto now = fx::steady_ns();
            const auto resp = raw_request(d.port, headers(h, &r), body);
            c.note(fetch_mode ? "rate.fetch-requests" : "rate.store-requests");
            if (!resp.complete) { c.violation("C28:rate:no-response", "{}"); break; }
            if (resp.ok()) {
                accepted_at.push_back(now);
                const auto in_window = static_cast<std::size_t>(std::count_if(accepted_at.begin(), accepted_at.end(), [&](std::int64_t t) { return now - t < 30 * NS; }));
                c.note_max(fetch_mode ? "rate.max-fetches-accepted-in-30s" : "rate.max-stores-accepted-in-30s", in_window);
                if (in_window > limit)
                    c.violation(fetch_mode ? "C28:rate:more-than-12-streamed-fetches-in-30s" : "C28:rate:more-than-6-stores-in-30s",
                                J().kv("accepted_in_window", in_window).kv("varying_header", vary == 0 ? "fresh TOKEN" : (vary == 1 ? "empty TOKEN" : (vary == 2 ? "X-CLIENT" : (vary == 3 ? "same TOKEN" : (vary >= 5 ? "OUT / FILENAME / STREAM of another request shape" : "none"))))).str());
            } else if (noise && resp.code().find("RATE") == std::string::npos) {
                c.note("rate.refused-for-another-reason");
            } else {
                c.note("rate.refused");
                if (resp.code().find("RATE") == std::string::npos) c.violation("C28:rate:unexpected-refusal", J().kv("code", resp.code()).str());
                // non-vacuity: a refusal needs a full window
                const auto in_window = static_cast<std::size_t>(std::count_if(accepted_at.begin(), accepted_at.end(), [&](std::int64_t t) { return now - t <= 30 * NS; }));
                if (in_window < limit) c.violation("C28:rate:refused-below-the-limit", J().kv("accepted_in_window", in_window).str());
            }
            static const std::int64_t steps[] = {0, 0, 0, 1, 100'000'000, 2 * NS, 5 * NS, 29 * NS, 30 * NS, 30 * NS + 1, 31 * NS};
            vclk::advance(nanoseconds(steps[r.below(11)]));
            sig = hx::mix(sig, hx::mix(vary, resp.ok()));
        }
    }
    c.sig(hx::mix(sig, c.cur_case % 512));
    if (c.cur_case % 97 == 0) c.sample(J().kv("scenario", scenario == 0 ? "payload-cap" : (scenario == 1 ? "ttl-window" : (scenario == 2 ? "store-pow" : "rate-limit"))).str());
}
void c28_case(Ctx& c, Rng& r) { c28_scenarios(c, r, c.cur_case % 4, "C28"); }
HX_PROPERTY("C28", c28_case);
// the control-plane clause of C02 ("the control plane refuses STORE TTLs outside that window") on its own
void c02c_case(Ctx& c, Rng& r) { c28_scenarios(c, r, 1, "C02"); }
HX_PROPERTY("C02c", c02c_case);

// ------------------------------------------------------------------------------------ C29
std::vector<std::string> split_lines(const std::string& s) {
    std::vector<std::string> out;
    std::istringstream is(s);
    std::string line;
    while (std::getline(is, line)) if (!line.empty()) out.push_back(line);
    return out;
}

void c29_case(Ctx& c, Rng& r) {
    Config cfg = base_config(r);
    const auto nendpoints = r.below(5), nboot = r.below(4), nwarn = r.chance(1, 16) ? 200 + r.below(300) : r.below(4);
    for (std::uint64_t i = 0; i < nendpoints; ++i) {
        Config::AdvertisedEndpoint e{};
        e.host = "203.0.113." + std::to_string(10 + i);
        e.port = static_cast<std::uint16_t>(r.chance(1, 3) ? 0 : 4000 + i);
        e.manual = true;
        if (r.chance(1, 2)) e.source = "manual-" + std::to_string(i);
        cfg.advertised_endpoints.push_back(e);
    }
    for (std::uint64_t i = 0; i < nboot; ++i) {
        Config::BootstrapNode b{};
        b.id = fx::peer_id_n(100 + static_cast<unsigned>(i));
        b.host = "198.51.100." + std::to_string(20 + i);
        b.port = static_cast<std::uint16_t>(5000 + i);
        if (r.chance(1, 2)) b.public_identity = static_cast<std::uint32_t>(2 + r.below(1000000));
        cfg.bootstrap_nodes.push_back(b);
    }
    cfg.storage_directory = r.chance(1, 2) ? "storage" : "/var/lib/eph store/dir:1";
    Daemon d(cfg);
    // a daemon that has been up for a while: hundreds of chunks make the folded ENTRIES value tens of kilobytes long
    static const std::uint64_t many[] = {150, 204, 205, 206, 250, 400, 1000};
    const auto nchunks = r.chance(1, 10) ? many[r.below(c.thorough ? 7 : 6)] : (r.chance(1, 4) ? r.below(41) : r.below(5));
    if (nchunks >= 150) c.note("list.responses-with-150-or-more-chunks");
    std::vector<std::pair<ChunkId, std::vector<std::uint8_t>>> stored;
    for (std::uint64_t i = 0; i < nchunks; ++i) {
        const auto id = fx::chunk_id_n(static_cast<unsigned>(i));
        auto p = r.bytes(1 + r.below(300));
        d.node->store_chunk(id, p, seconds(600 + i));
        stored.emplace_back(id, std::move(p));
    }
    for (std::uint64_t i = 0; i < nwarn; ++i) d.node->config().auto_advertise_warnings.push_back("warning number " + std::to_string(i) + ": pin a host");
    daemon::ControlClient client("127.0.0.1", d.port);
    std::uint64_t sig = hx::mix(nchunks, hx::mix(nendpoints, hx::mix(nboot, nwarn)));

    auto expect_field = [&](const char* cmd, const daemon::ControlResponse& resp, const std::string& field, const std::string& want, bool multiline_elsewhere) {
        c.note("fields.compared");
        const auto it = resp.fields.find(field);
        const bool want_multi = want.find('\n') != std::string::npos;
        if (it != resp.fields.end() && it->second == want) return;
        std::string key = std::string("C29:") + cmd + ":" + field;
        if (want_multi) key += ":multiline-value-truncated";
        else if (it == resp.fields.end() && multiline_elsewhere) key += ":field-lost-behind-multiline-value";
        else if (it == resp.fields.end()) key += ":field-missing";
        else key += ":value-differs";
        c.violation(key, J().kv("want", want.substr(0, 200)).kv("got", it == resp.fields.end() ? std::string("<missing>") : it->second.substr(0, 200)).str());
    };

    // LIST
    auto list_check = [&] {
        std::vector<ChunkStore::SnapshotEntry> snap;
        { std::scoped_lock lock(d.node_mutex); snap = d.node->stored_chunks(); }
        const auto resp = client.send("LIST");
        c.note("commands.LIST");
        if (!resp || !resp->success) c.violation("C29:LIST:request-failed", J().kv("chunks", nchunks).str());
        else {
            std::set<std::string> want_lines;
            for (auto& e : snap) {
                const auto ttl = std::chrono::duration_cast<seconds>(e.expires_at - std::chrono::steady_clock::now()).count();
                want_lines.insert(chunk_id_to_string(e.id) + "," + std::to_string(e.size) + "," + (e.encrypted ? "encrypted" : "plain") + "," + std::to_string(ttl));
            }
            const auto eit = resp->fields.find("ENTRIES");
            std::set<std::string> got_lines;
            if (eit != resp->fields.end()) for (auto& l : split_lines(eit->second)) got_lines.insert(l);
            c.note("list.entries-expected", want_lines.size());
            if (got_lines != want_lines) {
                c.violation(want_lines.size() >= 2 ? "C29:LIST:ENTRIES:multiline-value-truncated" : "C29:LIST:ENTRIES:value-differs",
                            J().kv("chunks", want_lines.size()).kv("entries_seen_by_client", got_lines.size()).str());
            }
            expect_field("LIST", *resp, "COUNT", std::to_string(snap.size()), !snap.empty());
            expect_field("LIST", *resp, "CODE", "OK_LIST", !snap.empty());
        }
    };
    list_check();
    // DEFAULTS
    {
        const auto resp = client.send("DEFAULTS");
        c.note("commands.DEFAULTS");
        if (!resp || !resp->success) c.violation("C29:DEFAULTS:request-failed", "{}");
        else {
            const auto& e = d.node->config();
            std::string eps;
            bool first = true;
            for (auto& ep : e.advertised_endpoints) {
                if (ep.host.empty()) continue;
                if (!first) eps += "\n";
                first = false;
                eps += ep.host + ":" + std::to_string(ep.port != 0 ? ep.port : e.control_port);
                if (!ep.source.empty()) eps += " (" + ep.source + ")";
            }
            std::string boots;
            first = true;
            for (auto& b : e.bootstrap_nodes) {
                if (b.host.empty()) continue;
                if (!first) boots += "\n";
                first = false;
                boots += peer_id_to_string(b.id) + "@" + b.host + ":" + std::to_string(b.port);
                if (b.public_identity) boots += " pub=" + std::to_string(*b.public_identity);
            }
            const bool multi = eps.find('\n') != std::string::npos || boots.find('\n') != std::string::npos;
            if (!eps.empty()) expect_field("DEFAULTS", *resp, "ADVERTISE_ENDPOINTS", eps, multi);
            if (!boots.empty()) expect_field("DEFAULTS", *resp, "BOOTSTRAP_NODES", boots, multi);
            expect_field("DEFAULTS", *resp, "CODE", "OK_DEFAULTS", multi);
            expect_field("DEFAULTS", *resp, "DEFAULT_TTL", std::to_string(e.default_chunk_ttl.count()), multi);
            expect_field("DEFAULTS", *resp, "MIN_TTL", std::to_string(e.min_manifest_ttl.count()), multi);
            expect_field("DEFAULTS", *resp, "MAX_TTL", std::to_string(e.max_manifest_ttl.count()), multi);
            expect_field("DEFAULTS", *resp, "STORAGE_DIR", e.storage_directory, multi);
            expect_field("DEFAULTS", *resp, "CONTROL_HOST", e.control_host, multi);
            expect_field("DEFAULTS", *resp, "CONTROL_PORT", std::to_string(e.control_port), multi);
            expect_field("DEFAULTS", *resp, "STORE_POW", std::to_string(e.store_pow_difficulty), multi);
            expect_field("DEFAULTS", *resp, "ADVERTISE_AUTO_MODE", "on", multi);
        }
    }
    // STATUS
    {
        const auto resp = client.send("STATUS");
        c.note("commands.STATUS");
        if (!resp || !resp->success) c.violation("C29:STATUS:request-failed", "{}");
        else {
            std::string warns;
            for (auto& w : d.node->config().auto_advertise_warnings) warns += w + "\n";
            const bool multi = !warns.empty();
            if (!warns.empty()) {
                c.note("fields.compared");
                const auto it = resp->fields.find("AUTO_ADVERTISE_WARNINGS");
                const auto got = it == resp->fields.end() ? std::vector<std::string>{} : split_lines(it->second);
                if (got != split_lines(warns)) c.violation(nwarn >= 2 ? "C29:STATUS:AUTO_ADVERTISE_WARNINGS:multiline-value-truncated" : "C29:STATUS:AUTO_ADVERTISE_WARNINGS:value-differs", J().kv("warnings", nwarn).kv("seen", got.size()).str());
                expect_field("STATUS", *resp, "AUTO_ADVERTISE_CONFLICT", "0", multi);
            }
            expect_field("STATUS", *resp, "CHUNKS", std::to_string(nchunks), multi);
            expect_field("STATUS", *resp, "CODE", "OK_STATUS", multi);
            expect_field("STATUS", *resp, "PEERS", "0", multi);
        }
    }
    // DIAGNOSTICS
    {
        const auto resp = client.send("DIAGNOSTICS");
        c.note("commands.DIAGNOSTICS");
        if (!resp || !resp->success) c.violation("C29:DIAGNOSTICS:request-failed", "{}");
        else {
            expect_field("DIAGNOSTICS", *resp, "CODE", "OK_DIAGNOSTICS", false);
            expect_field("DIAGNOSTICS", *resp, "ACTIVE_PEERS", "0", false);
            std::set<std::string> want;
            for (auto& b : cfg.bootstrap_nodes) want.insert(b.host + ":" + std::to_string(b.port) + "=disconnected");
            std::set<std::string> got;
            const auto it = resp->fields.find("BOOTSTRAP_STATUS");
            if (it != resp->fields.end()) { std::istringstream is(it->second); std::string tok; while (std::getline(is, tok, ',')) if (!tok.empty()) got.insert(tok); }
            c.note("fields.compared");
            if (got != want) c.violation("C29:DIAGNOSTICS:BOOTSTRAP_STATUS:value-differs", J().kv("want", want.size()).kv("got", got.size()).str());
        }
    }
    // STORE and FETCH: payload and fields
    {
        const auto payload = r.bytes(1 + r.below(5000));
        static const char* names[] = {"plain.txt", "with space.bin", "dir/inner.dat", "colon:name", "trailing.", "tab\tname"};
        const std::string path = names[r.below(6)];
        daemon::ControlFields f{{"TTL", "600"}, {"PATH", path}};
        const auto resp = client.send("STORE", f, std::span<const std::uint8_t>(payload.data(), payload.size()));
        c.note("commands.STORE");
        if (!resp || !resp->success) c.violation("C29:STORE:request-failed", J().kv("code", resp ? resp->fields.count("CODE") ? resp->fields.at("CODE") : "" : "<none>").str());
        else {
            expect_field("STORE", *resp, "SIZE", std::to_string(payload.size()), false);
            expect_field("STORE", *resp, "SOURCE", path, false);
            const auto mit = resp->fields.find("MANIFEST");
            if (mit == resp->fields.end()) c.violation("C29:STORE:MANIFEST:field-missing", "{}");
            else {
                try {
                    const auto m = protocol::decode_manifest(mit->second);
                    const auto cached = d.node->manifest_cache_.at(chunk_id_to_string(m.chunk_id));
                    if (protocol::encode_manifest(cached) != mit->second) c.violation("C29:STORE:MANIFEST:value-differs", "{}");
                    if (auto fn = cached.metadata.find("filename"); fn != cached.metadata.end()) expect_field("STORE", *resp, "FILENAME", fn->second, false);
                    const auto fr = client.send("FETCH", {{"MANIFEST", mit->second}, {"STREAM", "client"}});
                    c.note("commands.FETCH");
                    if (!fr || !fr->success || !fr->has_payload) c.violation("C29:FETCH:request-failed", "{}");
                    else {
                        if (fr->payload != payload) c.violation("C29:FETCH:payload-differs", J().kv("size", payload.size()).kv("got", fr->payload.size()).str());
                        expect_field("FETCH", *fr, "SIZE", std::to_string(payload.size()), false);
                    }
                } catch (const std::exception& e) { c.violation("C29:STORE:MANIFEST:undecodable", J().kv("what", e.what()).str()); }
            }
        }
    }
    c.sig(sig);
    // LIST once more while one chunk is inside its last second (and the shorter-lived ones have just expired, unswept): a live
    // chunk is listed however little time it has left
    if (nchunks > 0 && nchunks <= 40 && r.chance(1, 2)) {
        const auto j = r.below(nchunks);
        const std::int64_t left_ns = 1 + static_cast<std::int64_t>(r.below(999'999'999));
        vclk::advance(seconds(600 + static_cast<std::int64_t>(j)) - nanoseconds(left_ns));
        c.note("list.requests-with-a-chunk-in-its-last-second");
        list_check();
    }
    if (c.cur_case % 97 == 0) c.sample(J().kv("chunks", nchunks).kv("endpoints", nendpoints).kv("bootstrap_nodes", nboot).kv("warnings", nwarn).str());
}
HX_PROPERTY("C29", c29_case);

// ------------------------------------------------------------------------------------ C35 (control plane)
void c35c_case(Ctx& c, Rng& r) {
    // `eph serve` ignores SIGPIPE (checked black-box by the CLI driver); the in-process monitor mirrors that
    signal(SIGPIPE, SIG_IGN);
    Config cfg = base_config(r);
    if (r.chance(1, 3)) cfg.control_token = "tok";
    cfg.control_stream_max_bytes = 1 << 20;
    Daemon d(cfg);
    const auto held = d.node->store_chunk(fx::chunk_id_n(1), r.bytes(64), seconds(600));
    const auto uri = protocol::encode_manifest(held);
    std::uint64_t sig = 0;
    if (c.cur_case < 2 || (c.thorough && c.cur_case % 500 == 0)) {
        // stall probe: a silent (case 0) or half-sent (case 1) connection must not keep an honest client waiting for ever
        const int silent = connect_to(d.port);
        if (c.cur_case % 2 == 1) send_all_fd(silent, "COMMAND:PI", 10);
        const auto t0 = std::chrono::steady_clock::now();
        const int fd = connect_to(d.port);
        send_all_fd(fd, "COMMAND:PING\n\n", 14);
        const auto resp = read_response(fd, 25000);
        ::close(fd);
        ::close(silent);
        c.note("control.stall-probes");
        (void)t0;
        if (!resp.complete || !resp.ok()) c.violation("C35:control:silent-client-blocks-other-clients", J().kv("waited_ms", 25000).kv("half_sent", c.cur_case % 2 == 1).str());
    }
    for (int q = 0; q < 8; ++q) {
        const auto k = r.below(19);
        std::string bytes;
        bool half_close = r.chance(1, 3);
        bool reset_now = false;
        switch (k) {
            case 0: bytes = "COMMAND\n\n"; break;                                        // header without colon
            case 1: bytes = "COMMAND:" + std::string(16 * 1024 + r.below(4000), 'A') + "\n\n"; break;   // over-long line
            case 2: bytes = std::string(40000 + r.below(100000), 'B'); break;              // no newline at all
            case 3: { static const char* pl[] = {"-1", "abc", "", " 5", "5 ", "00000000000000000005", "1e3", "0x10"}; bytes = "COMMAND:STORE\nPAYLOAD-LENGTH:" + std::string(pl[r.below(8)]) + "\n\nhello"; break; }
            case 4: bytes = "COMMAND:FETCH\nMANIFEST:" + uri + "\nOUT:\n\n"; break;            // empty OUT
            case 5: bytes = "COMMAND:FETCH\nMANIFEST:" + uri + "\nOUT:" + std::string(5000, 'x') + "\n\n"; break;
            case 6: bytes = "COMMAND:FETCH\nMANIFEST:eph://" + genm::b64(r.bytes(r.below(200))) + "\nSTREAM:client\n\n"; break;
            case 7: bytes = "COMMAND:" + gen::rand_string(r, 1 + r.below(30)) + "\n\n"; break;
            case 8: { auto b = r.bytes(1 + r.below(400)); bytes.assign(b.begin(), b.end()); break; }
            case 9: bytes = "COMMAND:STORE\nPAYLOAD-LENGTH:100\n\nshort"; half_close = true; break;   // truncated payload
            case 10: bytes = "\n"; break;
            case 11: bytes = "COMMAND:STORE\nPAYLOAD-LENGTH:10\nTTL:600\nPATH:" + gen::rand_string(r, 1 + r.below(200)) + "\n\n0123456789"; break;
            case 12: bytes = "COMMAND:FETCH\nMANIFEST:" + uri + "\nOUT:/proc/self/does/not/exist/x\n\n"; break;
            case 13: bytes = "COMMAND:FETCH\nMANIFEST:" + uri + "\nSTREAM:client\nOUT:\n\n"; break;
            case 14: { bytes = "COMMAND:STATUS\n"; for (int i = 0; i < 2000; ++i) bytes += "H" + std::to_string(i) + ":v\n"; bytes += "\n"; break; }
            case 15: bytes = "COMMAND:STORE\r\nPAYLOAD-LENGTH:3\r\nTTL:600\r\n\r\nabc"; break;
            // a client that asks for a payload-carrying response and resets the connection without reading it
            case 16: bytes = std::string("COMMAND:FETCH\nMANIFEST:") + uri + "\nSTREAM:client\n" + (cfg.control_token ? "TOKEN:tok\n" : "") + "\n"; reset_now = true; half_close = false; break;
            case 17: bytes = "COMMAND:METRICS\n\n"; reset_now = true; half_close = false; break;
            default: bytes = "COMMAND:LIST\n\n"; reset_now = true; half_close = false; break;
        }
        const int fd = connect_to(d.port);
        if (fd < 0) { c.violation("C35:control:daemon-no-longer-accepts", J().kv("after_kind", k).str()); return; }
        send_all_fd(fd, bytes.data(), bytes.size());
        if (half_close) ::shutdown(fd, SHUT_WR);
        if (reset_now) {
            linger lg{1, 0};
            setsockopt(fd, SOL_SOCKET, SO_LINGER, &lg, sizeof lg);
            c.note("control.reset-before-reading-payload-response");
        } else if (r.chance(1, 2)) { auto resp = read_response(fd, 3000); (void)resp; }
        ::close(fd);
        c.note("control.hostile-connections");
        // an honest client is still served
        if (!ping_ok(d.port)) { c.violation("C35:control:honest-client-not-served-after-hostile-request", J().kv("kind", k).str()); return; }
        c.note("control.honest-pings-served");
        sig = hx::mix(sig, k);
    }
    c.sig(sig);
    if (c.cur_case % 199 == 0) c.sample(J().kv("hostile_connections", 8).str());
}
HX_PROPERTY("C35c", c35c_case);

struct Init { Init() { signal(SIGPIPE, SIG_IGN); vclk::freeze(); fx::silence_cerr(); std::clog.setstate(std::ios::failbit); } } g_init;

}  // namespace

// The repository's NatTraversal.cpp compiled into this TU so the anonymous-namespace
// parse_stun_response can be driven directly.
#include "src/network/NatTraversal.cpp"

#include "tu_stun.hpp"

namespace tu_stun {
bool parse(const std::uint8_t* data, std::size_t length, const std::array<std::uint8_t, 12>& txid,
           std::string& address, std::uint16_t& port) {
    const auto r = ephemeralnet::network::parse_stun_response(data, length, txid);
    if (!r.has_value()) return false;
    address = r->address;
    port = r->port;
    return true;
}
}  // namespace tu_stun

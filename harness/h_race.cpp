// C36: a daemon-shaped process under ThreadSanitizer.  Same thread roles and the same locking discipline as
// `eph serve`: control server thread (handlers take node_mutex), tick loop (takes node_mutex), transport accept
// thread and per-session reader threads (take no daemon-level lock).  TSan reports are parsed by lib/post_race.py.
#include <arpa/inet.h>
#include <signal.h>
#include <unistd.h>

#include <atomic>
#include <mutex>
#include <thread>

#include "common/gen_manifest.hpp"
#include "common/hx.hpp"
#include "common/node_fx.hpp"
#include "common/vclock.hpp"
#include "ephemeralnet/daemon/ControlPlane.hpp"
#include "tu_control.hpp"

using namespace ephemeralnet;
using hx::Ctx;
using hx::J;
using hx::Rng;
using std::chrono::nanoseconds;
using std::chrono::seconds;

namespace {

std::int64_t real_ms() {
    timespec ts{};
    clock_gettime(CLOCK_MONOTONIC, &ts);
    return static_cast<std::int64_t>(ts.tv_sec) * 1000 + ts.tv_nsec / 1000000;
}

Config base_config(std::uint32_t seed) {
    Config cfg{};
    cfg.identity_seed = seed;
    cfg.announce_pow_difficulty = 0;
    cfg.handshake_pow_difficulty = 0;
    cfg.store_pow_difficulty = 0;
    cfg.nat_stun_enabled = false;
    cfg.relay_enabled = false;
    cfg.shard_threshold = 2;
    cfg.shard_total = 3;
    cfg.handshake_cooldown = seconds(0);
    cfg.key_rotation_interval = seconds(5);
    cfg.cleanup_interval = seconds(1);
    cfg.min_manifest_ttl = seconds(2);
    cfg.max_manifest_ttl = seconds(3600);
    cfg.announce_min_interval = seconds(1);
    cfg.announce_burst_limit = 100000;
    return cfg;
}

struct Roles {
    std::atomic<int> in_tick{0}, in_control{0}, in_peer{0};
    std::atomic<std::uint64_t> ticks{0}, control_ops{0}, peer_ops{0};
    std::atomic<std::uint64_t> overlap_tick_peer{0}, overlap_tick_control{0}, overlap_control_peer{0}, overlap_peer_peer{0};
};

void c36_case(Ctx& c, Rng& r) {
    vclk::offset_mode();
    const int run_ms = static_cast<int>(c.param_i("run_ms", 1500));
    Roles roles;
    std::atomic<bool> stop{false};
    Config cfg = base_config(static_cast<std::uint32_t>(r.next()));
    const PeerId did = r.arr<32>();
    // Nodes are never destroyed in this harness: detached reader threads of replaced sessions can outlive
    // stop_transport(), and object life-time at teardown is not what this monitor is about (the daemon exits instead).
    Node& node = *new Node(did, cfg);
    std::mutex node_mutex;
    daemon::ControlServer server(node, node_mutex, [] {});
    server.start("127.0.0.1", 0);
    const auto cport = tu_control::bound_port(server);
    {
        std::scoped_lock lock(node_mutex);
        node.start_transport(0);
    }
    const auto tport = node.transport_port();
    const auto dpub = node.public_identity();

    // tick loop (main thread of `eph serve`)
    std::thread ticker([&] {
        std::uint64_t n = 0;
        while (!stop.load()) {
            {
                std::scoped_lock lock(node_mutex);
                roles.in_tick.fetch_add(1);
                if (roles.in_peer.load() > 0) roles.overlap_tick_peer.fetch_add(1);
                if (roles.in_control.load() > 0) roles.overlap_tick_control.fetch_add(1);
                node.tick();
                roles.in_tick.fetch_sub(1);
            }
            roles.ticks.fetch_add(1);
            if (++n % 3 == 0) vclk::advance(nanoseconds(1'700'000'000));   // cleanup and key rotation actually run
            ::usleep(1500);
        }
    });

    // peers
    const int npeers = 2 + static_cast<int>(r.below(3));
    std::vector<std::thread> peers;
    std::vector<std::uint64_t> peer_seeds;
    for (int i = 0; i < npeers; ++i) peer_seeds.push_back(r.next());
    for (int i = 0; i < npeers; ++i) {
        peers.emplace_back([&, i] {
            Rng pr(peer_seeds[i]);
            Config pc = base_config(static_cast<std::uint32_t>(pr.next()));
            pc.key_rotation_interval = seconds(3600);
            Node& peer = *new Node(pr.arr<32>(), pc);
            peer.start_transport(0);
            peer.perform_handshake(did, dpub, 0);
            std::vector<std::pair<ChunkId, std::string>> mine;   // chunks this peer announced
            unsigned nchunk = 0;
            while (!stop.load()) {
                roles.in_peer.fetch_add(1);
                if (roles.in_peer.load() > 1) roles.overlap_peer_peer.fetch_add(1);
                if (roles.in_control.load() > 0) roles.overlap_control_peer.fetch_add(1);
                const auto k = pr.below(8);
                if (k == 0 || !peer.sessions_.is_connected(did)) {
                    peer.perform_handshake(did, dpub, 0);
                    peer.connect_peer(did, "127.0.0.1", tport);       // inbound handshake on the daemon's accept thread
                } else {
                    const auto key = peer.session_key(did);
                    if (key) {
                        protocol::Message m{};
                        m.version = 4;
                        if (k <= 3) {
                            // announce a fresh chunk (the daemon caches the manifest, publishes shards, schedules a fetch)
                            ChunkId cid = pr.arr<32>();
                            cid[0] = static_cast<std::uint8_t>(i);
                            cid[1] = static_cast<std::uint8_t>(nchunk++);
                            auto manifest = peer.store_chunk(cid, pr.bytes(64), seconds(600));
                            m.type = protocol::MessageType::Announce;
                            protocol::AnnouncePayload ap{};
                            ap.chunk_id = cid; ap.peer_id = peer.id(); ap.endpoint = "127.0.0.1:" + std::to_string(peer.transport_port()); ap.ttl = seconds(300);
                            ap.manifest_uri = protocol::encode_manifest(manifest);
                            if (pr.chance(1, 2)) ap.assigned_shards = {manifest.shards[0].index};
                            m.payload = ap;
                            mine.emplace_back(cid, ap.manifest_uri);
                        } else if (k == 4 && !mine.empty()) {
                            // push a chunk the daemon may be waiting for
                            const auto& [cid, uri] = mine[pr.below(mine.size())];
                            const auto rec = peer.export_chunk_record(cid);
                            if (!rec) { roles.in_peer.fetch_sub(1); continue; }
                            m.type = protocol::MessageType::Chunk;
                            protocol::ChunkPayload cp{};
                            cp.chunk_id = cid; cp.data = rec->data; cp.ttl = seconds(300);
                            m.payload = cp;
                        } else if (k == 5) {
                            m.type = protocol::MessageType::Request;
                            ChunkId cid{};
                            cid.fill(0xCC);
                            cid[0] = static_cast<std::uint8_t>(pr.below(4));   // chunks stored through the control plane use sha256 ids; mostly negative acks
                            m.payload = protocol::RequestPayload{cid, peer.id()};
                        } else {
                            m.type = protocol::MessageType::Acknowledge;
                            m.payload = protocol::AcknowledgePayload{pr.arr<32>(), peer.id(), pr.chance(1, 2)};
                        }
                        const auto enc = protocol::encode_signed(m, *key);
                        peer.send_secure(did, enc);
                    }
                }
                roles.in_peer.fetch_sub(1);
                roles.peer_ops.fetch_add(1);
                if (pr.chance(1, 3)) ::sched_yield(); else ::usleep(static_cast<useconds_t>(pr.below(1500)));
            }
            peer.stop_transport();
            ::usleep(300000);   // detached reader threads of replaced sessions may still be finishing their last handler
        });
    }

    // control clients
    std::vector<std::thread> clients;
    std::vector<std::uint64_t> client_seeds;
    for (int i = 0; i < 4; ++i) client_seeds.push_back(r.next());
    for (int i = 0; i < 4; ++i) {
        clients.emplace_back([&, i] {
            Rng cr(client_seeds[i]);
            daemon::ControlClient client("127.0.0.1", cport);
            std::vector<std::string> manifests;
            while (!stop.load()) {
                roles.in_control.fetch_add(1);
                const auto k = cr.below(7);
                if (k <= 1) {
                    const auto payload = cr.bytes(32 + cr.below(400));
                    const auto resp = client.send("STORE", {{"TTL", "60"}}, payload);
                    if (resp && resp->success && resp->fields.count("MANIFEST")) manifests.push_back(resp->fields.at("MANIFEST"));
                } else if (k == 2 && !manifests.empty()) {
                    client.send("FETCH", {{"MANIFEST", manifests[cr.below(manifests.size())]}, {"STREAM", "client"}});
                } else if (k == 3) client.send("LIST");
                else if (k == 4) client.send("STATUS");
                else if (k == 5) client.send("DEFAULTS");
                else client.send("DIAGNOSTICS");
                roles.in_control.fetch_sub(1);
                roles.control_ops.fetch_add(1);
                if (cr.chance(1, 3)) ::sched_yield(); else ::usleep(static_cast<useconds_t>(cr.below(2000)));
            }
        });
    }

    const auto t0 = real_ms();
    while (real_ms() - t0 < run_ms) ::usleep(5000);
    stop.store(true);
    for (auto& t : clients) t.join();
    for (auto& t : peers) t.join();
    ticker.join();
    {
        std::scoped_lock lock(node_mutex);
        node.stop_transport();
    }
    server.stop();
    ::usleep(300000);   // same for the daemon node before it is destroyed

    c.note("race.repetitions");
    c.note("race.ticks", roles.ticks.load());
    c.note("race.control-ops", roles.control_ops.load());
    c.note("race.peer-ops", roles.peer_ops.load());
    c.note("race.overlap.tick-x-peer", roles.overlap_tick_peer.load());
    c.note("race.overlap.tick-x-control", roles.overlap_tick_control.load());
    c.note("race.overlap.control-x-peer", roles.overlap_control_peer.load());
    c.note("race.overlap.peer-x-peer", roles.overlap_peer_peer.load());
    c.sig(hx::mix(c.cur_case, hx::mix(roles.ticks.load() > 0, npeers)));
    c.sample(J().kv("peers", npeers).kv("control_clients", 4).kv("run_ms", run_ms).kv("ticks", roles.ticks.load()).kv("control_ops", roles.control_ops.load()).kv("peer_ops", roles.peer_ops.load())
                 .kv("tick_x_peer_overlaps", roles.overlap_tick_peer.load()).str());
}
HX_PROPERTY("C36", c36_case);

struct Init { Init() { signal(SIGPIPE, SIG_IGN); fx::silence_cerr(); std::clog.setstate(std::ios::failbit); } } g_init;

}  // namespace

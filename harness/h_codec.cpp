// C15 message round trip, C16 decode totality, C17 manifest round trip, C18 manifest decode totality,
// C33 STUN parsing, C37 structured logger, C38 update metadata parser.
#include <arpa/inet.h>
#include <sys/stat.h>

#include <algorithm>
#include <cstring>
#include <fstream>
#include <iostream>
#include <memory>
#include <sstream>
#include <thread>

#include "common/gen_manifest.hpp"
#include "common/gen_msg.hpp"
#include "common/hx.hpp"
#include "common/ref_crypto.hpp"
#include "ephemeralnet/core/UpdateCheck.hpp"
#include "ephemeralnet/daemon/StructuredLogger.hpp"
#include "ephemeralnet/protocol/Manifest.hpp"
#include "ephemeralnet/protocol/Message.hpp"
#include "tu_stun.hpp"

using namespace ephemeralnet;
using hx::Ctx;
using hx::J;
using hx::Rng;

namespace {

std::span<const std::uint8_t> sp(const std::vector<std::uint8_t>& v) { return {v.data(), v.size()}; }

// exact-size heap copy: a 1-byte over-read lands in an ASan red zone
struct Exact {
    std::unique_ptr<std::uint8_t[]> p;
    std::size_t n;
    explicit Exact(const std::vector<std::uint8_t>& v) : p(new std::uint8_t[v.size()]), n(v.size()) {
        if (n) std::memcpy(p.get(), v.data(), n);
    }
    Exact(const void* d, std::size_t len) : p(new std::uint8_t[len]), n(len) {
        if (n) std::memcpy(p.get(), d, n);
    }
    std::span<const std::uint8_t> span() const { return {p.get(), n}; }
};

// ------------------------------------------------------------------------------------ C15
void c15_case(Ctx& c, Rng& r) {
    const int type = static_cast<int>(c.cur_case % 6);
    const auto version = static_cast<std::uint8_t>((c.cur_case / 6) % 256);
    auto m = gen::message(r, type, version, c.thorough ? 4000 : 400);
    const auto enc = protocol::encode(m);
    const auto dec = protocol::decode(sp(enc));
    c.note("codec.roundtrips");
    auto expect = m;
    expect.version = version < 1 ? 1 : (version > 4 ? 4 : version);
    if (type == 0 && expect.version < 3) std::get<protocol::AnnouncePayload>(expect.payload).work_nonce = 0;
    const auto desc = [&] { return J().kv("type", type).kv("version", version).kv("encoded_len", enc.size()).kv("encoded", hx::hexs(enc).substr(0, 300)); };
    if (!dec.has_value()) {
        c.violation("C15:roundtrip:own-encoding-rejected:type=" + std::to_string(type + 1) + ":v=" + std::to_string(expect.version), desc().str());
    } else if (!gen::message_equal(*dec, expect)) {
        c.violation("C15:roundtrip:message-changed:type=" + std::to_string(type + 1) + ":v=" + std::to_string(expect.version), desc().str());
    }
    if (enc.size() >= 1 && enc[0] != expect.version) c.violation("C15:encode:version-not-clamped", desc().str());
    if (type == 0 && expect.version >= 3) c.note("codec.announce-v3plus");
    c.sig(hx::mix(hx::mix(type, version), enc.size() % 7));
    if (c.cur_case % 389 == 0) c.sample(desc().str());
}
HX_PROPERTY("C15", c15_case);

// ------------------------------------------------------------------------------------ C16
bool prefix_modulo_bools(const std::vector<std::uint8_t>& re, std::span<const std::uint8_t> in, protocol::MessageType t) {
    if (re.size() > in.size()) return false;
    for (std::size_t i = 0; i < re.size(); ++i) {
        if (re[i] == in[i]) continue;
        const bool bool_pos = (i == 2) && (t == protocol::MessageType::Acknowledge || t == protocol::MessageType::HandshakeAck);
        if (bool_pos && (re[i] != 0) == (in[i] != 0)) continue;
        return false;
    }
    return true;
}

void c16_check(Ctx& c, const std::vector<std::uint8_t>& input, const char* how) {
    Exact ex(input);
    c.note("decode.inputs");
    std::optional<protocol::Message> d;
    try {
        d = protocol::decode(ex.span());
    } catch (const std::exception& e) {
        c.violation(std::string("C16:decode:throws:") + how, J().kv("what", e.what()).kv("input", hx::hexs(input).substr(0, 400)).str());
        return;
    }
    if (d.has_value()) {
        c.note("decode.accepted");
        const auto re = protocol::encode(*d);
        if (!prefix_modulo_bools(re, ex.span(), d->type))
            c.violation(std::string("C16:decode:reencoding-not-prefix:") + how,
                        J().kv("input", hx::hexs(input).substr(0, 400)).kv("reencoded", hx::hexs(re).substr(0, 400)).str());
    }
    // signed: append a correct MAC under a random-ish key; must agree with plain decode
    std::vector<std::uint8_t> key(32);
    for (std::size_t i = 0; i < 32; ++i) key[i] = static_cast<std::uint8_t>(input.size() * 7 + i * 13 + (input.empty() ? 0 : input[0]));
    const auto mac = ref::hmac_sha256(sp(key), sp(input));
    auto s = input;
    s.insert(s.end(), mac.begin(), mac.end());
    Exact exs(s);
    Exact exk(key);
    try {
        const auto ds = protocol::decode_signed(exs.span(), exk.span());
        c.note("decode.signed-inputs");
        if (ds.has_value() != d.has_value()) c.violation(std::string("C16:decode_signed:disagrees-with-decode:") + how, J().kv("input", hx::hexs(input).substr(0, 400)).str());
        // and without a valid MAC / too short
        const auto dn = protocol::decode_signed(ex.span(), exk.span());
        (void)dn;
    } catch (const std::exception& e) {
        c.violation(std::string("C16:decode_signed:throws:") + how, J().kv("what", e.what()).str());
    }
}

void put_u32(std::vector<std::uint8_t>& b, std::size_t off, std::uint32_t v) {
    if (off + 4 > b.size()) return;
    b[off] = v >> 24; b[off + 1] = v >> 16; b[off + 2] = v >> 8; b[off + 3] = v;
}

void c16_case(Ctx& c, Rng& r) {
    const int type = static_cast<int>(r.below(6));
    const auto version = static_cast<std::uint8_t>(1 + r.below(4));
    const auto m = gen::message(r, type, version, 200);
    auto enc = protocol::encode(m);
    const auto mode = r.below(8);
    std::uint64_t sig = hx::mix(type, mode);
    if (mode == 0) {
        c16_check(c, enc, "valid");
    } else if (mode <= 3 && (type == 0 || type == 2)) {
        // length-field attacks
        const std::size_t nfields = type == 0 ? 4 : 2;
        const std::size_t body = enc.size() - 2;
        static const std::uint32_t evil[] = {0u, 1u, 0x7fffffffu, 0x80000000u, 0xfffffff0u, 0xfffffffcu, 0xffffffffu, 0x00010000u};
        for (std::size_t f = (type == 0 ? 1 : 1); f < nfields; ++f) {
            for (int k = 0; k < 6; ++k) {
                auto b = enc;
                std::uint32_t v;
                const auto pick = r.below(5);
                if (pick == 0) v = evil[r.below(8)];
                else if (pick == 1) v = static_cast<std::uint32_t>(body);
                else if (pick == 2) v = static_cast<std::uint32_t>(body + r.below(40)) - 20;
                else if (pick == 3) v = static_cast<std::uint32_t>(r.below(300));
                else v = 0xffffffffu - static_cast<std::uint32_t>(r.below(200));
                put_u32(b, 2 + 4 * f, v);
                if (r.chance(1, 3)) put_u32(b, 2 + 4 * ((f + 1) % nfields == 0 ? 1 : (f + 1) % nfields), evil[r.below(8)]);
                if (r.chance(1, 4)) b.resize(r.below(b.size() + 1));
                c16_check(c, b, "length-field");
            }
        }
        sig = hx::mix(sig, 1);
    } else if (mode == 4) {
        for (std::size_t n = 0; n <= enc.size(); ++n) {
            if (enc.size() > 150 && !(n < 80 || n + 20 > enc.size() || r.chance(1, 8))) continue;
            c16_check(c, std::vector<std::uint8_t>(enc.begin(), enc.begin() + n), "truncation");
        }
    } else if (mode == 5) {
        for (int k = 0; k < 24; ++k) {
            auto b = enc;
            const auto flips = 1 + r.below(4);
            for (std::uint64_t i = 0; i < flips && !b.empty(); ++i) b[r.below(std::min<std::size_t>(b.size(), 24))] = r.byte();
            c16_check(c, b, "header-mutation");
        }
    } else if (mode == 6) {
        for (int k = 0; k < 24; ++k) {
            auto b = r.bytes(r.below(200));
            if (b.size() >= 2 && r.chance(3, 4)) { b[0] = static_cast<std::uint8_t>(r.below(6)); b[1] = static_cast<std::uint8_t>(r.below(8)); }
            c16_check(c, b, "random");
        }
    } else {
        auto b = enc;
        const auto extra = r.bytes(r.below(64));
        b.insert(b.end(), extra.begin(), extra.end());
        c16_check(c, b, "trailing-bytes");
        for (std::uint8_t v : {0, 5, 6, 255}) { auto b2 = enc; b2[0] = v; c16_check(c, b2, "version-byte"); }
        for (std::uint8_t t : {0, 7, 8, 255}) { auto b2 = enc; b2[1] = t; c16_check(c, b2, "type-byte"); }
    }
    c.sig(hx::mix(sig, enc.size()));
    if (c.cur_case % 2003 == 0) c.sample(J().kv("type", type).kv("version", version).kv("mode", mode).kv("len", enc.size()).str());
}
HX_PROPERTY("C16", c16_case);

// ------------------------------------------------------------------------------------ C17
std::size_t boundary_len(Rng& r, std::size_t limit) {
    // lengths around a field limit (255 or 65535)
    const auto k = r.below(12);
    if (k == 0) return limit;
    if (k == 1) return limit + 1;
    if (k == 2) return limit - 1;
    if (k == 3) return 0;
    if (k == 4) return 1;
    if (k == 5 && limit > 255) return limit + 1 + r.below(64);
    return r.below(24);
}
std::size_t count_boundary(Rng& r) {
    const auto k = r.below(16);
    if (k == 0) return 255;
    if (k == 1) return 256;
    if (k == 2) return 254;
    if (k == 3) return 300;
    if (k == 4) return 257;
    return r.below(4);
}

void c17_case(Ctx& c, Rng& r) {
    using namespace std::chrono;
    protocol::Manifest m{};
    m.chunk_id = r.arr<32>();
    m.chunk_hash = r.arr<32>();
    m.nonce.bytes = r.arr<12>();
    m.threshold = r.byte();
    m.total_shares = r.byte();
    {
        const auto k = r.below(8);
        system_clock::time_point tp;
        if (k == 0) tp = system_clock::time_point{};
        else if (k == 1) tp = system_clock::time_point::max();
        else if (k == 2) tp = system_clock::time_point::min();
        else if (k == 3) tp = system_clock::time_point{nanoseconds{-static_cast<std::int64_t>(r.below(4'000'000'000'000ULL))}};
        else if (k == 4) tp = system_clock::time_point{seconds{static_cast<std::int64_t>(r.below(9'223'372'036ULL))}};
        else tp = system_clock::now() + nanoseconds{static_cast<std::int64_t>(r.below(100'000'000'000'000ULL))};
        m.expires_at = tp;
    }
    bool representable = true;
    std::string why;
    // at most one or two "big" dimensions per case keeps cases fast and witnesses readable
    const auto big = r.below(9);
    std::size_t nshards = big == 0 ? count_boundary(r) : r.below(6);
    if (big == 0 && r.chance(1, 2)) nshards = std::vector<std::size_t>{255, 256, 300, 257, 511, 512}[r.below(6)];
    m.shards.resize(nshards);
    for (std::size_t i = 0; i < nshards; ++i) { m.shards[i].index = static_cast<std::uint8_t>(r.byte()); m.shards[i].value = r.arr<32>(); }
    if (nshards > 255) { representable = false; why = "shards>255"; }

    const std::size_t nmeta = big == 1 ? count_boundary(r) : r.below(4);
    for (std::size_t i = 0; i < nmeta; ++i) {
        std::string k = "k" + std::to_string(i);
        std::string v = gen::rand_string(r, r.below(8));
        if (big == 2 && i == 0) { k = gen::rand_string(r, boundary_len(r, 255)); if (k.size() > 255) { representable = false; why = "meta-key>255"; } }
        if (big == 3 && i == 0) { v = gen::rand_string(r, boundary_len(r, 65535)); if (v.size() > 65535) { representable = false; why = "meta-value>65535"; } }
        m.metadata[k] = v;
    }
    if (m.metadata.size() > 255) { representable = false; why = "metadata>255"; }

    const std::size_t nhints = big == 4 ? count_boundary(r) : r.below(4);
    for (std::size_t i = 0; i < nhints; ++i) {
        protocol::DiscoveryHint h{};
        h.scheme = r.chance(1, 3) ? std::string{} : gen::rand_string(r, r.below(10));
        h.transport = gen::rand_string(r, r.below(10));
        h.endpoint = gen::rand_string(r, r.below(30));
        h.priority = r.byte();
        if (big == 5 && i == 0) {
            const auto which = r.below(3);
            if (which == 0) { h.scheme = gen::rand_string(r, boundary_len(r, 255)); }
            else if (which == 1) { h.transport = gen::rand_string(r, boundary_len(r, 255)); if (r.chance(1, 2)) h.scheme.clear(); }
            else { h.endpoint = gen::rand_string(r, boundary_len(r, 65535)); }
        }
        const auto& eff = h.scheme.empty() ? h.transport : h.scheme;
        if (eff.size() > 255) { representable = false; why = "hint-scheme>255"; }
        if (h.transport.size() > 255) { representable = false; why = "hint-transport>255"; }
        if (h.endpoint.size() > 65535) { representable = false; why = "hint-endpoint>65535"; }
        m.discovery_hints.push_back(std::move(h));
    }
    if (nhints > 255) { representable = false; why = "hints>255"; }

    const std::size_t nfb = big == 6 ? count_boundary(r) : r.below(3);
    for (std::size_t i = 0; i < nfb; ++i) {
        protocol::FallbackHint f{};
        f.uri = gen::rand_string(r, r.below(40));
        f.priority = r.byte();
        if (big == 7 && i == 0) { f.uri = gen::rand_string(r, boundary_len(r, 65535)); if (f.uri.size() > 65535) { representable = false; why = "fallback-uri>65535"; } }
        m.fallback_hints.push_back(std::move(f));
    }
    if (nfb > 255) { representable = false; why = "fallbacks>255"; }

    m.security.advisory = gen::rand_string(r, big == 8 ? boundary_len(r, 65535) : r.below(80));
    if (m.security.advisory.size() > 65535) { representable = false; why = "advisory>65535"; }
    m.security.has_attestation_digest = r.chance(1, 2);
    m.security.attestation_digest = r.arr<32>();
    m.security.token_challenge_bits = r.byte();

    std::string uri;
    bool threw = false;
    std::string what;
    try { uri = protocol::encode_manifest(m); } catch (const std::exception& e) { threw = true; what = e.what(); }
    c.note(representable ? "manifest.representable" : "manifest.unrepresentable");
    const auto desc = [&] {
        return J().kv("shards", nshards).kv("metadata", m.metadata.size()).kv("hints", nhints).kv("fallbacks", nfb)
            .kv("advisory_len", m.security.advisory.size()).kv("representable", representable).kv("why", why);
    };
    if (!representable) {
        if (!threw) {
            std::string decoded = "decode-failed";
            try { const auto d = protocol::decode_manifest(uri); decoded = "shards=" + std::to_string(d.shards.size()) + " metadata=" + std::to_string(d.metadata.size()); } catch (...) {}
            c.violation("C17:encode:unrepresentable-accepted:" + why, desc().kv("decoded_as", decoded).str());
        } else {
            c.note("manifest.refused");
        }
    } else {
        if (threw) {
            c.violation("C17:encode:representable-refused", desc().kv("what", what).str());
        } else {
            try {
                const auto d = protocol::decode_manifest(uri);
                std::string diff;
                c.note("manifest.roundtrips");
                if (!genm::manifests_equal_norm(m, d, diff)) c.violation("C17:roundtrip:field-changed:" + diff, desc().str());
            } catch (const std::exception& e) {
                c.violation("C17:roundtrip:own-encoding-rejected", desc().kv("what", e.what()).str());
            }
        }
    }
    c.sig(hx::mix(hx::mix(big, representable), hx::mix(nshards, hx::mix(nmeta, hx::mix(nhints, nfb)))));
    if (c.cur_case % 499 == 0) c.sample(desc().kv("uri_len", uri.size()).str());
}
HX_PROPERTY("C17", c17_case);

// ------------------------------------------------------------------------------------ C18
void c18_try(Ctx& c, const std::string& uri, const char* how) {
    // exact-size std::string (capacity == size is not guaranteed, so copy into a heap buffer too)
    c.note("manifest.decode-inputs");
    try {
        const std::string exact(uri.data(), uri.size());
        const auto m = protocol::decode_manifest(exact);
        (void)m;
        c.note("manifest.decode-accepted");
    } catch (const std::invalid_argument&) {
        c.note("manifest.decode-invalid-argument");
    } catch (const std::exception& e) {
        c.violation(std::string("C18:decode:foreign-exception:") + how, J().kv("what", e.what()).kv("uri", uri.substr(0, 300)).str());
    }
}

void c18_case(Ctx& c, Rng& r) {
    using namespace std::chrono;
    auto m = genm::basic(r, system_clock::now() + hours(1), static_cast<std::uint8_t>(1 + r.below(3)), static_cast<std::uint8_t>(1 + r.below(5)));
    if (r.chance(1, 2)) m.metadata["filename"] = gen::rand_string(r, r.below(20));
    if (r.chance(1, 2)) m.discovery_hints.push_back({"transport", "tcp", "1.2.3.4:5", 1});
    if (r.chance(1, 2)) m.fallback_hints.push_back({"control://1.2.3.4:5", 2});
    if (r.chance(1, 2)) { m.security.has_attestation_digest = true; m.security.advisory = "x"; }
    const auto uri = protocol::encode_manifest(m);
    auto raw = genm::unb64(uri.substr(6));
    const auto mode = r.below(7);
    if (mode <= 1) {
        static const std::uint64_t ev[] = {0ull, 1ull, 0x7fffffffull, 0x80000000ull, 0x1ffffffffull, 0x200000000ull,
                                           9223372036ull, 9223372037ull, 9223372035ull, 0x7fffffffffffffffull, 0x8000000000000000ull,
                                           0x8000000000000001ull, 0xffffffffffffffffull, 0xfffffffffffffffeull, 18446744064486179580ull,
                                           0xfffffffdda3e82fbull, 0xfffffffdda3e82fcull, 4611686018427387904ull};
        for (int k = 0; k < 8; ++k) {
            std::uint64_t v = r.chance(3, 4) ? ev[r.below(sizeof ev / sizeof ev[0])] : r.next();
            if (r.chance(1, 4)) v += static_cast<std::uint64_t>(r.range(-2, 2));
            auto b = raw;
            for (int i = 0; i < 8; ++i) b[genm::kExpiryOffset + i] = static_cast<std::uint8_t>(v >> (56 - 8 * i));
            c.note("manifest.expiry-boundary-inputs");
            c18_try(c, "eph://" + genm::b64(b), "expiry");
        }
    } else if (mode == 2) {
        for (std::size_t n = 0; n <= raw.size(); ++n) {
            if (raw.size() > 260 && !(n < 130 || n + 40 > raw.size() || r.chance(1, 6))) continue;
            c18_try(c, "eph://" + genm::b64(std::vector<std::uint8_t>(raw.begin(), raw.begin() + n)), "truncation");
        }
    } else if (mode == 3) {
        for (int k = 0; k < 30; ++k) {
            auto s = uri;
            const auto how = r.below(6);
            if (how == 0) s[6 + r.below(s.size() - 6)] = '=';
            else if (how == 1) s[6 + r.below(s.size() - 6)] = static_cast<char>(r.byte());
            else if (how == 2) s.resize(6 + r.below(s.size() - 6));
            else if (how == 3) s.insert(6 + r.below(s.size() - 6), 1, "=-_ \n\0"[r.below(6)]);
            else if (how == 4) s = s.substr(0, r.below(7)) + s.substr(6);
            else s += std::string(r.below(5), '=');
            c18_try(c, s, "base64-corruption");
        }
    } else if (mode == 4) {
        for (int k = 0; k < 30; ++k) {
            auto b = raw;
            const auto n = 1 + r.below(6);
            for (std::uint64_t i = 0; i < n; ++i) b[r.below(b.size())] = r.chance(1, 2) ? 0xff : r.byte();
            if (r.chance(1, 3)) b[0] = static_cast<std::uint8_t>(r.below(6));
            c18_try(c, "eph://" + genm::b64(b), "field-mutation");
        }
    } else if (mode == 5) {
        // count bytes set high with short bodies
        for (int k = 0; k < 20; ++k) {
            auto b = raw;
            b[genm::kExpiryOffset + 8 + 2] = static_cast<std::uint8_t>(r.chance(1, 2) ? 255 : r.byte());
            b.resize(std::min<std::size_t>(b.size(), genm::kExpiryOffset + 11 + r.below(400)));
            b[0] = static_cast<std::uint8_t>(1 + r.below(4));
            c18_try(c, "eph://" + genm::b64(b), "count-vs-size");
        }
    } else {
        for (int k = 0; k < 30; ++k) {
            std::string s = r.chance(1, 2) ? "eph://" : "";
            s += gen::rand_string(r, r.below(200));
            if (r.chance(1, 2)) { s = "eph://" + genm::b64(r.bytes(r.below(300))); }
            c18_try(c, s, "random");
        }
    }
    c.sig(hx::mix(mode, hx::mix(raw.size(), c.cur_case % 64)));
    if (c.cur_case % 997 == 0) c.sample(J().kv("mode", mode).kv("raw_len", raw.size()).str());
}
HX_PROPERTY("C18", c18_case);

// ------------------------------------------------------------------------------------ C33
struct StunRef {
    bool found{false};
    std::vector<std::pair<std::string, std::uint16_t>> candidates;   // every well-formed address attribute, in order
};

std::pair<std::string, std::uint16_t> stun_decode_attr(std::uint16_t type, const std::uint8_t* v, int family, const std::uint8_t* msg) {
    std::uint16_t port = static_cast<std::uint16_t>((v[2] << 8) | v[3]);
    const bool x = type == 0x0020;
    if (x) port ^= 0x2112;
    char buf[INET6_ADDRSTRLEN] = {0};
    if (family == 1) {
        std::uint8_t a[4];
        std::memcpy(a, v + 4, 4);
        if (x) { a[0] ^= 0x21; a[1] ^= 0x12; a[2] ^= 0xA4; a[3] ^= 0x42; }
        inet_ntop(AF_INET, a, buf, sizeof buf);
    } else {
        std::uint8_t a[16];
        std::memcpy(a, v + 4, 16);
        if (x) for (int i = 0; i < 16; ++i) a[i] ^= msg[4 + i];   // cookie || transaction id as laid out in the header
        inet_ntop(AF_INET6, a, buf, sizeof buf);
    }
    return {buf, port};
}

// strict walk written from RFC 5389 §15: attributes are TLVs at 4-byte-aligned positions inside the
// declared message length; an address attribute is well-formed when its value (>= 8 / >= 20 bytes for
// family 1 / 2) lies entirely inside the declared length.
StunRef stun_reference(const std::vector<std::uint8_t>& d, const std::array<std::uint8_t, 12>& txid, bool& header_ok) {
    StunRef out;
    header_ok = false;
    if (d.size() < 20) return out;
    const std::uint16_t type = static_cast<std::uint16_t>((d[0] << 8) | d[1]);
    const std::size_t mlen = static_cast<std::size_t>((d[2] << 8) | d[3]);
    if (type != 0x0101) return out;
    if (20 + mlen > d.size()) return out;
    if (!std::equal(txid.begin(), txid.end(), d.begin() + 8)) return out;
    header_ok = true;
    // XOR for IPv6 uses cookie||txid *as specified*: magic cookie constant, not the header bytes
    std::uint8_t hdr[20];
    std::memcpy(hdr, d.data(), 20);
    hdr[4] = 0x21; hdr[5] = 0x12; hdr[6] = 0xA4; hdr[7] = 0x42;
    const std::size_t end = 20 + mlen;
    std::size_t pos = 20;
    while (pos + 4 <= end) {
        const std::uint16_t at = static_cast<std::uint16_t>((d[pos] << 8) | d[pos + 1]);
        const std::size_t al = static_cast<std::size_t>((d[pos + 2] << 8) | d[pos + 3]);
        if (pos + 4 + al > end) break;   // value leaves the declared message: malformed, stop
        if ((at == 0x0001 || at == 0x0020) && al >= 4) {
            const int fam = d[pos + 5];
            if (fam == 1 && al >= 8) out.candidates.push_back(stun_decode_attr(at, d.data() + pos + 4, 1, hdr));
            else if (fam == 2 && al >= 20) out.candidates.push_back(stun_decode_attr(at, d.data() + pos + 4, 2, hdr));
        }
        pos += 4 + ((al + 3) & ~std::size_t{3});
    }
    out.found = !out.candidates.empty();
    return out;
}

void stun_attr(std::vector<std::uint8_t>& b, std::uint16_t type, const std::vector<std::uint8_t>& value, std::size_t declared = SIZE_MAX, bool pad = true) {
    const std::size_t al = declared == SIZE_MAX ? value.size() : declared;
    b.push_back(type >> 8); b.push_back(type & 0xff);
    b.push_back(static_cast<std::uint8_t>(al >> 8)); b.push_back(static_cast<std::uint8_t>(al & 0xff));
    b.insert(b.end(), value.begin(), value.end());
    if (pad) while (b.size() % 4) b.push_back(0);
}

std::vector<std::uint8_t> stun_addr_value(Rng& r, bool xored, int family, const std::array<std::uint8_t, 12>& txid, std::vector<std::uint8_t>& plain_addr, std::uint16_t& port) {
    port = static_cast<std::uint16_t>(r.next());
    plain_addr = r.bytes(family == 1 ? 4 : 16);
    if (r.chance(1, 4)) std::fill(plain_addr.begin(), plain_addr.end(), r.chance(1, 2) ? 0 : 0xff);
    std::vector<std::uint8_t> v;
    v.push_back(r.chance(1, 4) ? r.byte() : 0);
    v.push_back(static_cast<std::uint8_t>(family));
    std::uint16_t p = port;
    if (xored) p ^= 0x2112;
    v.push_back(p >> 8); v.push_back(p & 0xff);
    static const std::uint8_t cookie[4] = {0x21, 0x12, 0xA4, 0x42};
    for (std::size_t i = 0; i < plain_addr.size(); ++i) {
        std::uint8_t x = plain_addr[i];
        if (xored) x ^= (i < 4 ? cookie[i] : txid[i - 4]);
        v.push_back(x);
    }
    return v;
}

void c33_case(Ctx& c, Rng& r) {
    std::array<std::uint8_t, 12> txid = r.arr<12>();
    std::vector<std::uint8_t> d;
    const auto mode = r.below(10);
    bool canonical = false;
    std::string canon_addr;
    std::uint16_t canon_port = 0;
    auto header = [&](std::vector<std::uint8_t>& b, std::uint16_t type, std::size_t mlen, bool good_tx) {
        b.assign(20, 0);
        b[0] = type >> 8; b[1] = type & 0xff;
        b[2] = static_cast<std::uint8_t>(mlen >> 8); b[3] = static_cast<std::uint8_t>(mlen & 0xff);
        b[4] = 0x21; b[5] = 0x12; b[6] = 0xA4; b[7] = 0x42;
        for (int i = 0; i < 12; ++i) b[8 + i] = good_tx ? txid[i] : static_cast<std::uint8_t>(txid[i] ^ (i == static_cast<int>(mlen % 12) ? 1 : 0));
    };
    std::vector<std::uint8_t> body;
    std::vector<std::uint8_t> plain;
    const bool xored = r.chance(1, 2);
    const int family = r.chance(1, 2) ? 1 : 2;
    std::uint16_t port = 0;
    const auto addr_attr = stun_addr_value(r, xored, family, txid, plain, port);
    char buf[INET6_ADDRSTRLEN] = {0};
    inet_ntop(family == 1 ? AF_INET : AF_INET6, plain.data(), buf, sizeof buf);
    auto unknown_attr = [&] { stun_attr(body, static_cast<std::uint16_t>(r.chance(1, 2) ? 0x8022 : (0x0002 + r.below(0x1e))), r.bytes(r.below(13))); };
    if (mode <= 2) {
        // canonical: optional unknown attributes around exactly one well-formed address attribute
        const auto before = r.below(3), after = r.below(3);
        for (std::uint64_t i = 0; i < before; ++i) unknown_attr();
        stun_attr(body, xored ? 0x0020 : 0x0001, addr_attr);
        for (std::uint64_t i = 0; i < after; ++i) unknown_attr();
        header(d, 0x0101, body.size(), true);
        d.insert(d.end(), body.begin(), body.end());
        if (r.chance(1, 3)) { auto junk = r.bytes(r.below(16)); d.insert(d.end(), junk.begin(), junk.end()); }
        canonical = true; canon_addr = buf; canon_port = port;
    } else if (mode == 3) {
        // wrong type / wrong transaction id / declared length beyond datagram
        stun_attr(body, xored ? 0x0020 : 0x0001, addr_attr);
        const auto k = r.below(4);
        static const std::uint16_t types[] = {0x0001, 0x0111, 0x0100, 0x0102, 0x8101, 0x0000};
        std::size_t declared = body.size();
        if (k == 2) declared = body.size() + 1 + r.below(8);
        else if (k == 3) {
            // declared lengths at the top of the 16-bit range (20 + length does not fit 16 bits), and other huge values
            const auto w = r.below(4);
            declared = w == 0 ? 0xFFEC + r.below(20) : (w == 1 ? 0xFFE0 + r.below(12) : (w == 2 ? 0xFF00 + r.below(256) : 0x8000 + r.below(0x7fff)));
            c.note("stun.declared-length-near-16-bit-limit");
        }
        header(d, k == 0 ? types[r.below(6)] : 0x0101, declared, k != 1);
        d.insert(d.end(), body.begin(), body.end());
        if (k == 3 && r.chance(1, 2)) d.resize(20);   // header only: everything the parser might walk lies outside the datagram
    } else if (mode == 4) {
        // address attribute overrunning the *declared* length while fitting in the datagram
        const auto before = r.below(2);
        for (std::uint64_t i = 0; i < before; ++i) unknown_attr();
        stun_attr(body, xored ? 0x0020 : 0x0001, addr_attr);
        const std::size_t cut = 1 + r.below(std::min<std::size_t>(addr_attr.size(), 12));
        header(d, 0x0101, body.size() - cut, true);
        d.insert(d.end(), body.begin(), body.end());
    } else if (mode == 5) {
        // attribute length fields lying (too long / too short), short address values
        const auto k = r.below(4);
        if (k == 0) stun_attr(body, xored ? 0x0020 : 0x0001, addr_attr, addr_attr.size() + 1 + r.below(40));
        else if (k == 1) stun_attr(body, xored ? 0x0020 : 0x0001, std::vector<std::uint8_t>(addr_attr.begin(), addr_attr.begin() + r.below(addr_attr.size())));
        else if (k == 2) stun_attr(body, xored ? 0x0020 : 0x0001, addr_attr, r.below(addr_attr.size()));
        else { stun_attr(body, 0x8022, r.bytes(5), 5, false); stun_attr(body, xored ? 0x0020 : 0x0001, addr_attr); }   // unpadded -> misaligned
        header(d, 0x0101, body.size(), true);
        d.insert(d.end(), body.begin(), body.end());
    } else if (mode == 6) {
        // every truncation of a canonical response
        stun_attr(body, xored ? 0x0020 : 0x0001, addr_attr);
        header(d, 0x0101, body.size(), true);
        d.insert(d.end(), body.begin(), body.end());
        d.resize(r.below(d.size() + 1));
    } else if (mode == 7) {
        // unknown families / both attribute kinds / several address attributes
        auto v2 = addr_attr; v2[1] = static_cast<std::uint8_t>(r.below(5));
        stun_attr(body, r.chance(1, 2) ? 0x0001 : 0x0020, v2);
        if (r.chance(1, 2)) stun_attr(body, xored ? 0x0020 : 0x0001, addr_attr);
        header(d, 0x0101, body.size(), true);
        d.insert(d.end(), body.begin(), body.end());
    } else if (mode == 8) {
        d = r.bytes(r.below(513));
        if (d.size() >= 20 && r.chance(3, 4)) { d[0] = 0x01; d[1] = 0x01; d[2] = 0; d[3] = static_cast<std::uint8_t>(r.below(d.size())); for (int i = 0; i < 12; ++i) d[8 + i] = txid[i]; }
    } else {
        // mutate a canonical response
        stun_attr(body, xored ? 0x0020 : 0x0001, addr_attr);
        unknown_attr();
        header(d, 0x0101, body.size(), true);
        d.insert(d.end(), body.begin(), body.end());
        const auto n = 1 + r.below(3);
        for (std::uint64_t i = 0; i < n; ++i) d[r.below(d.size())] = r.byte();
    }

    Exact ex(d);
    std::string addr;
    std::uint16_t got_port = 0;
    c.note("stun.datagrams");
    const bool got = tu_stun::parse(ex.p.get(), ex.n, txid, addr, got_port);
    bool header_ok = false;
    const auto refr = stun_reference(d, txid, header_ok);
    const auto desc = [&] { return J().kv("mode", mode).kv("datagram", hx::hexs(d)).kv("txid", hx::hexs(txid)).kv("reported", got ? addr + ":" + std::to_string(got_port) : std::string("none")); };
    if (got) {
        c.note("stun.address-reported");
        bool match = false;
        for (auto& cand : refr.candidates) if (cand.first == addr && cand.second == got_port) match = true;
        if (!header_ok) c.violation("C33:stun:address-from-non-matching-response", desc().str());
        else if (!match) c.violation(refr.candidates.empty() ? "C33:stun:address-from-malformed-attribute" : "C33:stun:address-decoded-wrongly", desc().str());
    }
    if (canonical) {
        c.note("stun.canonical");
        if (!got) c.violation("C33:stun:canonical-response-not-parsed", desc().str());
        else if (addr != canon_addr || got_port != canon_port) c.violation("C33:stun:canonical-response-decoded-wrongly", desc().kv("want", canon_addr + ":" + std::to_string(canon_port)).str());
    }
    c.sig(hx::mix(hx::mix(mode, family), hx::mix(xored, hx::mix(got, d.size()))));
    if (c.cur_case % 1999 == 0) c.sample(desc().str());
}
HX_PROPERTY("C33", c33_case);

// ------------------------------------------------------------------------------------ UTF-8 generator
void put_utf8(std::string& o, std::uint32_t cp) {
    if (cp < 0x80) o.push_back(static_cast<char>(cp));
    else if (cp < 0x800) { o.push_back(static_cast<char>(0xC0 | (cp >> 6))); o.push_back(static_cast<char>(0x80 | (cp & 0x3F))); }
    else if (cp < 0x10000) { o.push_back(static_cast<char>(0xE0 | (cp >> 12))); o.push_back(static_cast<char>(0x80 | ((cp >> 6) & 0x3F))); o.push_back(static_cast<char>(0x80 | (cp & 0x3F))); }
    else { o.push_back(static_cast<char>(0xF0 | (cp >> 18))); o.push_back(static_cast<char>(0x80 | ((cp >> 12) & 0x3F))); o.push_back(static_cast<char>(0x80 | ((cp >> 6) & 0x3F))); o.push_back(static_cast<char>(0x80 | (cp & 0x3F))); }
}
std::uint32_t rand_cp(Rng& r, bool allow_nul) {
    const auto k = r.below(16);
    std::uint32_t cp;
    if (k < 4) cp = 0x20 + static_cast<std::uint32_t>(r.below(0x5f));
    else if (k == 4) cp = static_cast<std::uint32_t>(r.below(0x20));
    else if (k == 5) { static const std::uint32_t s[] = {'"', '\\', '/', 0x7f, '\n', '\r', '\t', '\b', '\f', '{', '}', ':', ','}; cp = s[r.below(13)]; }
    else if (k == 6) cp = 0x80 + static_cast<std::uint32_t>(r.below(0x780));
    else if (k == 7) { static const std::uint32_t s[] = {0x2028, 0x2029, 0xFFFF, 0xFFFE, 0xFEFF, 0xD7FF, 0xE000, 0xFFFD, 0x800, 0x7FF}; cp = s[r.below(10)]; }
    else if (k < 11) { do { cp = 0x800 + static_cast<std::uint32_t>(r.below(0xF800)); } while (cp >= 0xD800 && cp <= 0xDFFF); }
    else if (k < 14) cp = 0x10000 + static_cast<std::uint32_t>(r.below(0x100000));
    else { static const std::uint32_t s[] = {0x10000, 0x10FFFF, 0x1F600, 0x1D11E, 0xFFFFF, 0x100000}; cp = s[r.below(6)]; }
    if (cp == 0 && !allow_nul) cp = 1;
    return cp;
}
std::vector<std::uint32_t> rand_cps(Rng& r, std::size_t maxlen, bool allow_nul = true) {
    std::vector<std::uint32_t> v(r.below(maxlen + 1));
    for (auto& x : v) x = rand_cp(r, allow_nul);
    if (!v.empty() && r.chance(1, 10)) v.back() = '\\';
    return v;
}
std::string cps_utf8(const std::vector<std::uint32_t>& v) { std::string o; for (auto cp : v) put_utf8(o, cp); return o; }

// ------------------------------------------------------------------------------------ C37
struct ClogCapture {
    std::ostringstream buf;
    std::streambuf* old;
    ClogCapture() : old(std::clog.rdbuf(buf.rdbuf())) {}
    ~ClogCapture() { std::clog.rdbuf(old); }
    std::string take() { auto s = buf.str(); buf.str(""); return s; }
};

FILE* dump_file(Ctx& c) {
    static FILE* f = nullptr;
    if (!f) f = std::fopen((c.scratch + "/dump.jsonl").c_str(), "w");
    return f;
}

void c37_case(Ctx& c, Rng& r) {
    using daemon::StructuredLogger;
    auto& logger = StructuredLogger::instance();
    FILE* df = dump_file(c);
    const bool threaded = (c.cur_case % 50) == 49;
    if (!threaded) {
        ClogCapture cap;
        const auto ev = cps_utf8(rand_cps(r, 12));
        StructuredLogger::FieldList fields;
        const auto nf = r.chance(1, 20) ? 50 : r.below(6);
        for (std::uint64_t i = 0; i < nf; ++i) {
            auto k = cps_utf8(rand_cps(r, 6));
            if (i > 0 && r.chance(1, 6)) k = fields[r.below(fields.size())].first;   // duplicate names
            fields.emplace_back(k, cps_utf8(rand_cps(r, r.chance(1, 10) ? 200 : 16)));
        }
        const auto level = static_cast<StructuredLogger::Level>(r.below(3));
        logger.log(level, ev, fields);
        const auto out = cap.take();
        c.note("log.records");
        const auto nl = std::count(out.begin(), out.end(), '\n');
        if (out.empty() || out.back() != '\n' || nl != 1) {
            c.violation("C37:log:not-exactly-one-line", J().kv("newlines", static_cast<std::int64_t>(nl)).kv("event", hx::hex(ev.data(), ev.size())).kv("line", hx::hex(out.data(), std::min<std::size_t>(out.size(), 400))).str());
        }
        if (df) {
            std::string fl = "[";
            for (std::size_t i = 0; i < fields.size(); ++i) {
                if (i) fl += ",";
                fl += "[\"" + hx::hex(fields[i].first.data(), fields[i].first.size()) + "\",\"" + hx::hex(fields[i].second.data(), fields[i].second.size()) + "\"]";
            }
            fl += "]";
            std::fprintf(df, "{\"kind\":\"log\",\"case\":%llu,\"event\":\"%s\",\"fields\":%s,\"line\":\"%s\"}\n",
                         static_cast<unsigned long long>(c.cur_case), hx::hex(ev.data(), ev.size()).c_str(), fl.c_str(), hx::hex(out.data(), out.size()).c_str());
        }
        c.sig(hx::mix(hx::hash_str(ev), hx::mix(nf, hx::hash_str(out) % 1024)));
        if (c.cur_case % 2003 == 0) c.sample(J().kv("event_hex", hx::hex(ev.data(), ev.size())).kv("fields", nf).kv("line", out.substr(0, 300)).str());
    } else {
        // 8 threads logging concurrently: lines must not interleave
        ClogCapture cap;
        constexpr int T = 8, N = 40;
        std::vector<std::vector<std::pair<std::string, std::string>>> planned(T);
        for (int t = 0; t < T; ++t)
            for (int i = 0; i < N; ++i) planned[t].emplace_back("t" + std::to_string(t) + "-" + std::to_string(i), cps_utf8(rand_cps(r, 60, false)));
        std::vector<std::thread> th;
        for (int t = 0; t < T; ++t)
            th.emplace_back([&, t] { for (auto& p : planned[t]) logger.log(StructuredLogger::Level::Info, p.first, {{"v", p.second}}); });
        for (auto& x : th) x.join();
        const auto out = cap.take();
        const auto nl = std::count(out.begin(), out.end(), '\n');
        c.note("log.concurrent-records", T * N);
        if (nl != T * N) c.violation("C37:log:concurrent-line-count", J().kv("lines", static_cast<std::int64_t>(nl)).kv("expected", T * N).str());
        if (df) {
            // one dump record per line; python checks each parses and the multiset of (event, v) matches
            std::string exp = "[";
            bool first = true;
            for (auto& tv : planned) for (auto& p : tv) { if (!first) exp += ","; first = false; exp += "[\"" + hx::hex(p.first.data(), p.first.size()) + "\",\"" + hx::hex(p.second.data(), p.second.size()) + "\"]"; }
            exp += "]";
            std::fprintf(df, "{\"kind\":\"log-concurrent\",\"case\":%llu,\"expected\":%s,\"out\":\"%s\"}\n", static_cast<unsigned long long>(c.cur_case), exp.c_str(), hx::hex(out.data(), out.size()).c_str());
        }
        c.sig(hx::mix(7, hx::hash_str(out) % 4096));
    }
    if (df) std::fflush(df);
}
HX_PROPERTY("C37", c37_case);

// ------------------------------------------------------------------------------------ C38
std::string json_encode_string(Rng& r, const std::vector<std::uint32_t>& cps) {
    std::string o = "\"";
    char buf[16];
    for (auto cp : cps) {
        const auto how = r.below(4);
        const bool must_escape = cp < 0x20 || cp == '"' || cp == '\\';
        if (!must_escape && how != 0) { put_utf8(o, cp); continue; }
        // escaped form
        if (cp == '"' && r.chance(1, 2)) { o += "\\\""; continue; }
        if (cp == '\\' && r.chance(1, 2)) { o += "\\\\"; continue; }
        if (cp == '/' && r.chance(1, 2)) { o += "\\/"; continue; }
        if (cp == '\b' && r.chance(1, 2)) { o += "\\b"; continue; }
        if (cp == '\f' && r.chance(1, 2)) { o += "\\f"; continue; }
        if (cp == '\n' && r.chance(1, 2)) { o += "\\n"; continue; }
        if (cp == '\r' && r.chance(1, 2)) { o += "\\r"; continue; }
        if (cp == '\t' && r.chance(1, 2)) { o += "\\t"; continue; }
        const bool upper = r.chance(1, 2);
        if (cp < 0x10000) {
            std::snprintf(buf, sizeof buf, upper ? "\\u%04X" : "\\u%04x", cp);
            o += buf;
        } else {
            const std::uint32_t v = cp - 0x10000;
            std::snprintf(buf, sizeof buf, upper ? "\\u%04X" : "\\u%04x", 0xD800 + (v >> 10));
            o += buf;
            std::snprintf(buf, sizeof buf, upper ? "\\u%04X" : "\\u%04x", 0xDC00 + (v & 0x3FF));
            o += buf;
        }
    }
    o += "\"";
    return o;
}
std::string ws(Rng& r) { static const char* w[] = {"", "", "", " ", "\n", "\t", "\r\n ", "  "}; return w[r.below(8)]; }
std::string junk_value(Rng& r, int depth) {
    const auto k = r.below(depth > 3 ? 5 : 8);
    switch (k) {
        case 0: return "null";
        case 1: return r.chance(1, 2) ? "true" : "false";
        case 2: { static const char* n[] = {"0", "-0", "1", "-12", "3.25", "1e5", "1E-3", "-0.5e+10", "123456789012345678901234567890", "0.000001"}; return n[r.below(10)]; }
        case 3: return json_encode_string(r, rand_cps(r, 8));
        case 4: return "\"\"";
        case 5: { std::string o = "[" + ws(r); const auto n = r.below(4); for (std::uint64_t i = 0; i < n; ++i) { if (i) o += "," + ws(r); o += junk_value(r, depth + 1); } return o + ws(r) + "]"; }
        default: { std::string o = "{" + ws(r); const auto n = r.below(4); for (std::uint64_t i = 0; i < n; ++i) { if (i) o += "," + ws(r); o += "\"j" + std::to_string(i) + "\"" + ws(r) + ":" + ws(r) + junk_value(r, depth + 1); } return o + ws(r) + "}"; }
    }
}

struct MetaDoc {
    std::string text;
    std::vector<std::pair<std::string, std::string>> expect;   // name -> utf8 value ("downloads.N.field")
};

MetaDoc make_meta(Rng& r) {
    MetaDoc d;
    std::vector<std::pair<std::string, std::string>> members;   // key json, value json
    auto add_string = [&](const std::string& key, const std::string& path) {
        auto cps = rand_cps(r, r.chance(1, 8) ? 40 : 10);
        // text that looks like structure to anything scanning the raw document: runs of brackets inside a string, strings
        // ending in a backslash or in an escaped quote (a Windows path, a regular expression)
        if (r.chance(1, 6)) { const auto nb = 130 + r.below(200); for (std::uint64_t i = 0; i < nb; ++i) cps.push_back(r.chance(1, 2) ? '[' : '{'); }
        if (r.chance(1, 5)) { const auto k = r.below(3); if (k == 0) cps.push_back('\\'); else if (k == 1) { cps.push_back('\\'); cps.push_back('\\'); } else cps.push_back('"'); }
        d.expect.emplace_back(path, cps_utf8(cps));
        return std::make_pair("\"" + key + "\"", json_encode_string(r, cps));
    };
    for (const char* k : {"version", "tag", "commit", "channel", "generated_at"}) members.push_back(add_string(k, k));
    if (r.chance(1, 2)) members.push_back(add_string("notes_url", "notes_url"));
    else d.expect.emplace_back("notes_url", "\x01<absent>");
    // downloads
    std::string dl = "{" + ws(r);
    const auto nd = 1 + r.below(3);
    for (std::uint64_t i = 0; i < nd; ++i) {
        if (i) dl += "," + ws(r);
        const auto pcps = rand_cps(r, 8);
        auto pname = cps_utf8(pcps) + "#" + std::to_string(i);
        std::vector<std::uint32_t> pc2 = pcps; pc2.push_back('#'); pc2.push_back('0' + static_cast<std::uint32_t>(i));
        const std::string base = "downloads." + std::to_string(i) + ".";
        d.expect.emplace_back(base + "platform", pname);
        std::vector<std::pair<std::string, std::string>> f;
        {
            const auto cps = rand_cps(r, 20);
            d.expect.emplace_back(base + "url", cps_utf8(cps));
            f.emplace_back("\"url\"", json_encode_string(r, cps));
        }
        for (const char* k : {"arch", "format", "sha256"}) {
            if (r.chance(2, 3)) {
                const auto cps = rand_cps(r, 10);
                d.expect.emplace_back(base + k, cps_utf8(cps));
                f.emplace_back(std::string("\"") + k + "\"", json_encode_string(r, cps));
            } else {
                d.expect.emplace_back(base + k, std::string(k) == "sha256" ? "\x01<absent>" : "");
                if (r.chance(1, 3)) f.emplace_back(std::string("\"") + k + "\"", r.chance(1, 2) ? "null" : "17");
            }
        }
        if (r.chance(1, 3)) f.emplace_back("\"extra\"", junk_value(r, 1));
        std::shuffle(f.begin(), f.end(), r);
        dl += json_encode_string(r, pc2) + ws(r) + ":" + ws(r) + "{" + ws(r);
        for (std::size_t j = 0; j < f.size(); ++j) { if (j) dl += "," + ws(r); dl += f[j].first + ws(r) + ":" + ws(r) + f[j].second; }
        dl += ws(r) + "}";
    }
    dl += ws(r) + "}";
    members.emplace_back("\"downloads\"", dl);
    const auto nj = r.below(4);
    for (std::uint64_t i = 0; i < nj; ++i) members.emplace_back("\"x_extra" + std::to_string(i) + "\"", junk_value(r, 0));
    std::shuffle(members.begin(), members.end(), r);
    d.text = ws(r) + "{" + ws(r);
    for (std::size_t i = 0; i < members.size(); ++i) { if (i) d.text += "," + ws(r); d.text += members[i].first + ws(r) + ":" + ws(r) + members[i].second; }
    d.text += ws(r) + "}" + ws(r);
    return d;
}

bool run_meta(const std::string& text, update::Metadata& md, std::string& err) {
    Exact ex(text.data(), text.size());
    return update::parse_update_metadata(std::string_view(reinterpret_cast<const char*>(ex.p.get()), ex.n), md, err);
}

void c38_case(Ctx& c, Rng& r) {
    const auto mode = r.below(10);
    FILE* df = dump_file(c);
    if (mode <= 4) {
        const auto doc = make_meta(r);
        update::Metadata md{};
        std::string err;
        const bool ok = run_meta(doc.text, md, err);
        c.note("meta.valid-documents");
        if (!ok) {
            c.violation("C38:meta:valid-document-rejected", J().kv("error", err).kv("doc", hx::hex(doc.text.data(), std::min<std::size_t>(doc.text.size(), 1500))).str());
        } else {
            std::map<std::string, std::string> got;
            got["version"] = md.version; got["tag"] = md.tag; got["commit"] = md.commit; got["channel"] = md.channel; got["generated_at"] = md.generated_at;
            got["notes_url"] = md.notes_url ? *md.notes_url : "\x01<absent>";
            for (std::size_t i = 0; i < md.downloads.size(); ++i) {
                const std::string base = "downloads." + std::to_string(i) + ".";
                got[base + "platform"] = md.downloads[i].platform; got[base + "url"] = md.downloads[i].url;
                got[base + "arch"] = md.downloads[i].arch; got[base + "format"] = md.downloads[i].format;
                got[base + "sha256"] = md.downloads[i].sha256 ? *md.downloads[i].sha256 : "\x01<absent>";
            }
            for (auto& [k, v] : doc.expect) {
                c.note("meta.fields-compared");
                auto it = got.find(k);
                if (it == got.end() || it->second != v) {
                    // classify: does the expected value contain an astral code point?
                    bool astral = false;
                    for (unsigned char ch : v) if (ch >= 0xF0) astral = true;
                    c.violation(std::string("C38:meta:field-value-wrong:") + (astral ? "astral" : "bmp"),
                                J().kv("field", k).kv("want", hx::hex(v.data(), v.size())).kv("got", it == got.end() ? "<missing>" : hx::hex(it->second.data(), it->second.size()))
                                    .kv("doc", hx::hex(doc.text.data(), std::min<std::size_t>(doc.text.size(), 1500))).str());
                    break;
                }
            }
        }
        if (df && c.cur_case % 4 == 0) {
            std::string g = "{";
            g += "\"version\":\"" + hx::hex(md.version.data(), md.version.size()) + "\",\"tag\":\"" + hx::hex(md.tag.data(), md.tag.size()) + "\",\"commit\":\"" + hx::hex(md.commit.data(), md.commit.size()) +
                 "\",\"channel\":\"" + hx::hex(md.channel.data(), md.channel.size()) + "\",\"generated_at\":\"" + hx::hex(md.generated_at.data(), md.generated_at.size()) + "\"";
            if (md.notes_url) g += ",\"notes_url\":\"" + hx::hex(md.notes_url->data(), md.notes_url->size()) + "\"";
            g += ",\"downloads\":[";
            for (std::size_t i = 0; i < md.downloads.size(); ++i) {
                const auto& dl = md.downloads[i];
                if (i) g += ",";
                g += "{\"platform\":\"" + hx::hex(dl.platform.data(), dl.platform.size()) + "\",\"url\":\"" + hx::hex(dl.url.data(), dl.url.size()) + "\",\"arch\":\"" + hx::hex(dl.arch.data(), dl.arch.size()) +
                     "\",\"format\":\"" + hx::hex(dl.format.data(), dl.format.size()) + "\"";
                if (dl.sha256) g += ",\"sha256\":\"" + hx::hex(dl.sha256->data(), dl.sha256->size()) + "\"";
                g += "}";
            }
            g += "]}";
            std::fprintf(df, "{\"kind\":\"meta\",\"case\":%llu,\"ok\":%s,\"doc\":\"%s\",\"got\":%s}\n", static_cast<unsigned long long>(c.cur_case), ok ? "true" : "false",
                         hx::hex(doc.text.data(), doc.text.size()).c_str(), g.c_str());
            std::fflush(df);
        }
        c.sig(hx::mix(hx::hash_str(doc.text), mode));
        if (c.cur_case % 1999 == 0) c.sample(J().kv("doc", doc.text.substr(0, 500)).kv("ok", ok).str());
        return;
    }
    update::Metadata md{};
    std::string err;
    if (mode == 5) {
        // every truncation of a valid document
        const auto doc = make_meta(r);
        for (std::size_t n = 0; n < doc.text.size(); ++n) {
            if (doc.text.size() > 400 && !(n < 150 || n + 40 > doc.text.size() || r.chance(1, 8))) continue;
            c.note("meta.truncated-inputs");
            (void)run_meta(doc.text.substr(0, n), md, err);
        }
        c.sig(hx::mix(5, doc.text.size()));
    } else if (mode == 6) {
        static const char* tiny[] = {"", "{", "[", "\"", "-", "{\"", "{\"a\"", "{\"a\":", "{\"a\":1,", "[1,", "tru", "nul", "\"\\", "\"\\u", "\"\\u12", "-0.", "1e", "1e+", "{\"a\":-", "[-", " ", "{ ", "[ ", "{\"a\" ", "{\"a\": ", "0", "\"\\ud83d", "\"\\ud83d\\u"};
        for (const char* t : tiny) { c.note("meta.tiny-inputs"); (void)run_meta(t, md, err); }
        c.sig(6);
    } else if (mode == 7) {
        // deep nesting
        const std::size_t depth = c.thorough ? (r.chance(1, 3) ? 1000000 : 1000 * (1 + r.below(300))) : (r.chance(1, 2) ? 200000 : 100 * (1 + r.below(500)));
        std::string s;
        const auto kind = r.below(3);
        if (kind == 0) s.assign(depth, '[');
        else if (kind == 1) { for (std::size_t i = 0; i < depth; ++i) s += "{\"a\":"; }
        else { for (std::size_t i = 0; i < depth; ++i) s += (i % 2 ? "[" : "{\"k\":"); }
        if (r.chance(1, 2)) { s += "1"; if (kind == 0) s.append(depth, ']'); }
        if (r.chance(1, 2)) {
            // the nesting starts behind a string whose end is easy to misjudge (escaped backslash, escaped quote)
            static const char* arr_pre[] = {"[\"\\\\\",", "[\"a\\\"\",", "[\"\\\\\\\\\",", "[\"]]]\\\\\","};
            static const char* obj_pre[] = {"{\"p\":\"C:\\\\\",\"a\":", "{\"p\":\"q\\\"\",\"a\":", "{\"version\":\"1.0.0\",\"path\":\"C:\\\\\",\"extra\":"};
            s = std::string(kind == 0 ? arr_pre[r.below(4)] : obj_pre[r.below(3)]) + s;
            c.note("meta.deep-nesting-behind-tricky-string");
        }
        c.note("meta.deep-nesting-inputs");
        c.note_max("meta.nesting-depth", depth);
        (void)run_meta(s, md, err);
        c.sig(hx::mix(7, hx::mix(kind, depth)));
    } else if (mode == 8) {
        for (int k = 0; k < 20; ++k) {
            const auto b = r.bytes(r.below(120));
            c.note("meta.random-inputs");
            (void)run_meta(std::string(b.begin(), b.end()), md, err);
        }
        c.sig(hx::mix(8, c.cur_case % 128));
    } else {
        // mutated valid documents
        const auto doc = make_meta(r);
        for (int k = 0; k < 20; ++k) {
            auto s = doc.text;
            const auto n = 1 + r.below(3);
            for (std::uint64_t i = 0; i < n; ++i) {
                static const char repl[] = "\"\\{}[]:,u0 -e.";
                s[r.below(s.size())] = r.chance(1, 2) ? repl[r.below(sizeof repl - 1)] : static_cast<char>(r.byte());
            }
            c.note("meta.mutated-inputs");
            (void)run_meta(s, md, err);
        }
        c.sig(hx::mix(9, doc.text.size()));
    }
}
HX_PROPERTY("C38", c38_case);

// ------------------------------------------------------------------------------------ seed corpora for the libFuzzer targets
// Not a property: writes valid inputs for fz_message / fz_manifest / fz_stun below the scratch directory.
void seeds_case(Ctx& c, Rng& r) {
    auto put = [&](const char* sub, const std::vector<std::uint8_t>& bytes) {
        const auto dir = c.scratch + "/" + sub;
        ::mkdir(dir.c_str(), 0755);
        std::ofstream f(dir + "/seed-" + std::to_string(c.cur_case), std::ios::binary | std::ios::trunc);
        f.write(reinterpret_cast<const char*>(bytes.data()), static_cast<std::streamsize>(bytes.size()));
    };
    {
        const auto m = gen::message(r, static_cast<int>(c.cur_case % 6), static_cast<std::uint8_t>(1 + (c.cur_case / 6) % 4), 120);
        const auto key = r.bytes(c.cur_case % 3 == 0 ? 0 : 32);
        std::vector<std::uint8_t> in;
        in.push_back(static_cast<std::uint8_t>(key.size()));
        in.insert(in.end(), key.begin(), key.end());
        const auto enc = (c.cur_case % 2) ? protocol::encode_signed(m, sp(key)) : protocol::encode(m);
        in.insert(in.end(), enc.begin(), enc.end());
        put("msg", in);
    }
    {
        using namespace std::chrono;
        auto m = genm::basic(r, system_clock::now() + hours(1), static_cast<std::uint8_t>(1 + r.below(3)), static_cast<std::uint8_t>(1 + r.below(4)));
        if (r.chance(1, 2)) m.metadata["filename"] = "a.bin";
        if (r.chance(1, 2)) m.discovery_hints.push_back({"transport", "tcp", "1.2.3.4:5", 1});
        if (r.chance(1, 2)) m.fallback_hints.push_back({"control://1.2.3.4:5", 2});
        if (r.chance(1, 2)) { m.security.has_attestation_digest = true; m.security.advisory = "x"; }
        if (r.chance(1, 3)) m.security.token_challenge_bits = static_cast<std::uint8_t>(r.below(24));
        const auto uri = protocol::encode_manifest(m);
        auto raw = genm::unb64(uri.substr(6));
        raw.insert(raw.begin(), 2);
        put("man", raw);
    }
    {
        const auto txid = r.arr<12>();
        std::vector<std::uint8_t> body, plain;
        std::uint16_t port = 0;
        const bool xored = r.chance(1, 2);
        const auto v = stun_addr_value(r, xored, r.chance(1, 2) ? 1 : 2, txid, plain, port);
        if (r.chance(1, 2)) stun_attr(body, 0x8022, r.bytes(r.below(9)));
        stun_attr(body, xored ? 0x0020 : 0x0001, v);
        std::vector<std::uint8_t> d(txid.begin(), txid.end());
        d.push_back(0x01); d.push_back(0x01);
        d.push_back(static_cast<std::uint8_t>(body.size() >> 8)); d.push_back(static_cast<std::uint8_t>(body.size() & 0xff));
        d.push_back(0x21); d.push_back(0x12); d.push_back(0xA4); d.push_back(0x42);
        d.insert(d.end(), txid.begin(), txid.end());
        d.insert(d.end(), body.begin(), body.end());
        put("stun", d);
    }
    c.sig(c.cur_case);
}
HX_PROPERTY("SEEDS", seeds_case);

}  // namespace

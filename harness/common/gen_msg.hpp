// Generators for protocol messages shared by several harnesses.
#pragma once
#include "ephemeralnet/protocol/Message.hpp"
#include "hx.hpp"

namespace gen {

using namespace ephemeralnet;

inline std::string rand_string(hx::Rng& r, std::size_t n) {
    std::string s(n, '\0');
    for (auto& c : s) c = static_cast<char>(r.byte());
    return s;
}

inline std::size_t small_len(hx::Rng& r, std::size_t max) {
    static const std::size_t b[] = {0, 0, 1, 2, 7, 8, 31, 32, 33, 63, 64, 65, 255, 256, 257};
    if (r.chance(1, 2)) {
        auto v = b[r.below(sizeof b / sizeof b[0])];
        return v > max ? max : v;
    }
    return r.below(max + 1);
}

inline std::uint32_t u32_boundary(hx::Rng& r) {
    static const std::uint32_t b[] = {0u, 1u, 2u, 255u, 256u, 65535u, 65536u, 0x7fffffffu, 0x80000000u, 0xfffffffeu, 0xffffffffu};
    return r.chance(1, 2) ? b[r.below(sizeof b / sizeof b[0])] : static_cast<std::uint32_t>(r.next());
}
inline std::uint64_t u64_boundary(hx::Rng& r) {
    static const std::uint64_t b[] = {0ull, 1ull, 0xffffffffull, 0x100000000ull, 0x7fffffffffffffffull, 0x8000000000000000ull, ~0ull};
    return r.chance(1, 2) ? b[r.below(sizeof b / sizeof b[0])] : r.next();
}

// type index 0..5 -> MessageType 1..6
inline protocol::Message message(hx::Rng& r, int type_index, std::uint8_t version, std::size_t max_blob = 600) {
    protocol::Message m{};
    m.version = version;
    switch (type_index) {
        case 0: {
            m.type = protocol::MessageType::Announce;
            protocol::AnnouncePayload p{};
            p.chunk_id = r.arr<32>();
            p.peer_id = r.arr<32>();
            p.endpoint = rand_string(r, small_len(r, 80));
            p.ttl = std::chrono::seconds(u32_boundary(r));
            p.manifest_uri = rand_string(r, small_len(r, max_blob));
            p.assigned_shards = r.bytes(small_len(r, 300));
            p.work_nonce = u64_boundary(r);
            m.payload = std::move(p);
            break;
        }
        case 1: {
            m.type = protocol::MessageType::Request;
            protocol::RequestPayload p{};
            p.chunk_id = r.arr<32>();
            p.requester = r.arr<32>();
            m.payload = p;
            break;
        }
        case 2: {
            m.type = protocol::MessageType::Chunk;
            protocol::ChunkPayload p{};
            p.chunk_id = r.arr<32>();
            p.data = r.bytes(small_len(r, max_blob));
            p.ttl = std::chrono::seconds(u32_boundary(r));
            m.payload = std::move(p);
            break;
        }
        case 3: {
            m.type = protocol::MessageType::Acknowledge;
            protocol::AcknowledgePayload p{};
            p.chunk_id = r.arr<32>();
            p.peer_id = r.arr<32>();
            p.accepted = r.chance(1, 2);
            m.payload = p;
            break;
        }
        case 4: {
            m.type = protocol::MessageType::TransportHandshake;
            protocol::TransportHandshakePayload p{};
            p.public_identity = u32_boundary(r);
            p.work_nonce = u64_boundary(r);
            p.requested_version = r.byte();
            m.payload = p;
            break;
        }
        default: {
            m.type = protocol::MessageType::HandshakeAck;
            protocol::HandshakeAckPayload p{};
            p.accepted = r.chance(1, 2);
            p.negotiated_version = r.byte();
            p.responder_public = u32_boundary(r);
            m.payload = p;
            break;
        }
    }
    return m;
}

inline bool payload_equal(const protocol::Payload& a, const protocol::Payload& b) {
    if (a.index() != b.index()) return false;
    return std::visit(
        [&](const auto& x) -> bool {
            using T = std::decay_t<decltype(x)>;
            const auto& y = std::get<T>(b);
            if constexpr (std::is_same_v<T, protocol::AnnouncePayload>) {
                return x.chunk_id == y.chunk_id && x.peer_id == y.peer_id && x.endpoint == y.endpoint && x.ttl == y.ttl &&
                       x.manifest_uri == y.manifest_uri && x.assigned_shards == y.assigned_shards && x.work_nonce == y.work_nonce;
            } else if constexpr (std::is_same_v<T, protocol::RequestPayload>) {
                return x.chunk_id == y.chunk_id && x.requester == y.requester;
            } else if constexpr (std::is_same_v<T, protocol::ChunkPayload>) {
                return x.chunk_id == y.chunk_id && x.data == y.data && x.ttl == y.ttl;
            } else if constexpr (std::is_same_v<T, protocol::AcknowledgePayload>) {
                return x.chunk_id == y.chunk_id && x.peer_id == y.peer_id && x.accepted == y.accepted;
            } else if constexpr (std::is_same_v<T, protocol::TransportHandshakePayload>) {
                return x.public_identity == y.public_identity && x.work_nonce == y.work_nonce && x.requested_version == y.requested_version;
            } else {
                return x.accepted == y.accepted && x.negotiated_version == y.negotiated_version && x.responder_public == y.responder_public;
            }
        },
        a);
}
inline bool message_equal(const protocol::Message& a, const protocol::Message& b) {
    return a.version == b.version && a.type == b.type && payload_equal(a.payload, b.payload);
}

}  // namespace gen

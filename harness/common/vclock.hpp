// Virtual clock: this executable defines std::chrono::steady_clock::now() and
// system_clock::now(), interposing libstdc++'s out-of-line definitions for every
// object linked into the process (including the repository's static library).
#pragma once
#include <chrono>
#include <cstdint>

namespace vclk {

// Frozen mode: both clocks return base + offset and move only via advance().
void freeze();
// Offset mode: clocks return real time + offset (threads that poll keep working).
void offset_mode();
// Back to plain real time (offset 0).
void real_mode();
void advance(std::chrono::nanoseconds d);
void advance_s(std::int64_t seconds);
std::int64_t offset_ns();
bool frozen();
std::chrono::steady_clock::time_point steady_now();
std::chrono::system_clock::time_point system_now();

}  // namespace vclk

// Manifest generators, raw layout builder and an independent base64 codec.
#pragma once
#include <optional>
#include "ephemeralnet/protocol/Manifest.hpp"
#include "gen_msg.hpp"
#include "hx.hpp"

namespace genm {
using namespace ephemeralnet;

inline std::string b64(const std::vector<std::uint8_t>& in) {
    static const char* A = "ABCDEFGHIJKLMNOPQRSTUVWXYZabcdefghijklmnopqrstuvwxyz0123456789+/";
    std::string o;
    std::size_t i = 0;
    for (; i + 3 <= in.size(); i += 3) {
        const std::uint32_t v = (in[i] << 16) | (in[i + 1] << 8) | in[i + 2];
        o += A[v >> 18]; o += A[(v >> 12) & 63]; o += A[(v >> 6) & 63]; o += A[v & 63];
    }
    if (in.size() - i == 1) {
        const std::uint32_t v = in[i] << 16;
        o += A[v >> 18]; o += A[(v >> 12) & 63]; o += "==";
    } else if (in.size() - i == 2) {
        const std::uint32_t v = (in[i] << 16) | (in[i + 1] << 8);
        o += A[v >> 18]; o += A[(v >> 12) & 63]; o += A[(v >> 6) & 63]; o += '=';
    }
    return o;
}
inline std::vector<std::uint8_t> unb64(const std::string& s) {
    auto val = [](char c) -> int {
        if (c >= 'A' && c <= 'Z') return c - 'A';
        if (c >= 'a' && c <= 'z') return c - 'a' + 26;
        if (c >= '0' && c <= '9') return c - '0' + 52;
        if (c == '+') return 62;
        if (c == '/') return 63;
        return -1;
    };
    std::vector<std::uint8_t> o;
    std::uint32_t acc = 0;
    int bits = 0;
    for (char c : s) {
        if (c == '=') break;
        const int v = val(c);
        if (v < 0) continue;
        acc = (acc << 6) | static_cast<std::uint32_t>(v);
        bits += 6;
        if (bits >= 8) { bits -= 8; o.push_back(static_cast<std::uint8_t>((acc >> bits) & 0xff)); }
    }
    return o;
}

constexpr std::size_t kExpiryOffset = 1 + 32 + 32 + 12;   // version, id, hash, nonce

inline std::vector<protocol::KeyShard> shards(hx::Rng& r, std::size_t n) {
    std::vector<protocol::KeyShard> v(n);
    for (std::size_t i = 0; i < n; ++i) { v[i].index = static_cast<std::uint8_t>(i + 1); v[i].value = r.arr<32>(); }
    return v;
}

// A plain, well-formed manifest (used as a base by several harnesses).
inline protocol::Manifest basic(hx::Rng& r, std::chrono::system_clock::time_point expires, std::uint8_t t = 2, std::uint8_t n = 3) {
    protocol::Manifest m{};
    m.chunk_id = r.arr<32>();
    m.chunk_hash = r.arr<32>();
    m.nonce.bytes = r.arr<12>();
    m.threshold = t;
    m.total_shares = n;
    m.expires_at = expires;
    m.shards = shards(r, n);
    return m;
}

// Independent serialiser of the version-4 manifest layout (written from the decoder's field order, not from
// encode_manifest): what a foreign implementation would put on the wire.  nullopt when a count or length does not fit
// its prefix.  expiry_seconds overrides the time_point (lets a test write any 64-bit value).
inline std::optional<std::string> ref_encode(const protocol::Manifest& m, std::optional<std::uint64_t> expiry_seconds = std::nullopt) {
    std::vector<std::uint8_t> b;
    auto u16 = [&](std::size_t v) { b.push_back(static_cast<std::uint8_t>(v >> 8)); b.push_back(static_cast<std::uint8_t>(v & 0xff)); };
    auto str = [&](const std::string& x) { b.insert(b.end(), x.begin(), x.end()); };
    if (m.shards.size() > 255 || m.metadata.size() > 255 || m.discovery_hints.size() > 255 || m.fallback_hints.size() > 255 || m.security.advisory.size() > 65535) return std::nullopt;
    b.push_back(4);
    b.insert(b.end(), m.chunk_id.begin(), m.chunk_id.end());
    b.insert(b.end(), m.chunk_hash.begin(), m.chunk_hash.end());
    b.insert(b.end(), m.nonce.bytes.begin(), m.nonce.bytes.end());
    const std::uint64_t exp = expiry_seconds ? *expiry_seconds
                                             : static_cast<std::uint64_t>(std::chrono::duration_cast<std::chrono::seconds>(m.expires_at.time_since_epoch()).count());
    for (int sh = 56; sh >= 0; sh -= 8) b.push_back(static_cast<std::uint8_t>(exp >> sh));
    b.push_back(m.threshold);
    b.push_back(m.total_shares);
    b.push_back(static_cast<std::uint8_t>(m.shards.size()));
    for (const auto& s : m.shards) { b.push_back(s.index); b.insert(b.end(), s.value.begin(), s.value.end()); }
    b.push_back(static_cast<std::uint8_t>(m.metadata.size()));
    for (const auto& [k, v] : m.metadata) {
        if (k.size() > 255 || v.size() > 65535) return std::nullopt;
        b.push_back(static_cast<std::uint8_t>(k.size())); str(k); u16(v.size()); str(v);
    }
    b.push_back(static_cast<std::uint8_t>(m.discovery_hints.size()));
    for (const auto& h : m.discovery_hints) {
        const std::string& scheme = h.scheme.empty() ? h.transport : h.scheme;
        if (scheme.size() > 255 || h.transport.size() > 255 || h.endpoint.size() > 65535) return std::nullopt;
        b.push_back(static_cast<std::uint8_t>(scheme.size())); str(scheme);
        b.push_back(static_cast<std::uint8_t>(h.transport.size())); str(h.transport);
        u16(h.endpoint.size()); str(h.endpoint);
        b.push_back(h.priority);
    }
    b.push_back(m.security.token_challenge_bits);
    u16(m.security.advisory.size()); str(m.security.advisory);
    b.push_back(m.security.has_attestation_digest ? 1 : 0);
    if (m.security.has_attestation_digest) b.insert(b.end(), m.security.attestation_digest.begin(), m.security.attestation_digest.end());
    b.push_back(static_cast<std::uint8_t>(m.fallback_hints.size()));
    for (const auto& h : m.fallback_hints) {
        if (h.uri.size() > 65535) return std::nullopt;
        u16(h.uri.size()); str(h.uri); b.push_back(h.priority);
    }
    return "eph://" + b64(b);
}

inline bool manifests_equal_norm(const protocol::Manifest& a, const protocol::Manifest& b, std::string& why) {
    using namespace std::chrono;
    auto fail = [&](const char* w) { why = w; return false; };
    if (a.chunk_id != b.chunk_id) return fail("chunk_id");
    if (a.chunk_hash != b.chunk_hash) return fail("chunk_hash");
    if (a.nonce.bytes != b.nonce.bytes) return fail("nonce");
    if (a.threshold != b.threshold) return fail("threshold");
    if (a.total_shares != b.total_shares) return fail("total_shares");
    if (duration_cast<seconds>(a.expires_at.time_since_epoch()) != duration_cast<seconds>(b.expires_at.time_since_epoch())) return fail("expires_at");
    if (a.shards.size() != b.shards.size()) return fail("shards.size");
    for (std::size_t i = 0; i < a.shards.size(); ++i)
        if (a.shards[i].index != b.shards[i].index || a.shards[i].value != b.shards[i].value) return fail("shards");
    if (a.metadata != b.metadata) return fail("metadata");
    if (a.discovery_hints.size() != b.discovery_hints.size()) return fail("discovery.size");
    for (std::size_t i = 0; i < a.discovery_hints.size(); ++i) {
        const auto& x = a.discovery_hints[i];
        const auto& y = b.discovery_hints[i];
        const auto xs = x.scheme.empty() ? x.transport : x.scheme;
        const auto ys = y.scheme.empty() ? y.transport : y.scheme;
        if (xs != ys || x.transport != y.transport || x.endpoint != y.endpoint || x.priority != y.priority) return fail("discovery");
    }
    if (a.security.advisory != b.security.advisory) return fail("advisory");
    if (a.security.token_challenge_bits != b.security.token_challenge_bits) return fail("token_bits");
    if (a.security.has_attestation_digest != b.security.has_attestation_digest) return fail("digest_flag");
    if (a.security.has_attestation_digest && a.security.attestation_digest != b.security.attestation_digest) return fail("digest");
    if (a.fallback_hints.size() != b.fallback_hints.size()) return fail("fallback.size");
    for (std::size_t i = 0; i < a.fallback_hints.size(); ++i)
        if (a.fallback_hints[i].uri != b.fallback_hints[i].uri || a.fallback_hints[i].priority != b.fallback_hints[i].priority) return fail("fallback");
    return true;
}

}  // namespace genm

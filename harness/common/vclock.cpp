#include "vclock.hpp"

#include <atomic>
#include <ctime>

namespace {
// 0 = real, 1 = offset, 2 = frozen
std::atomic<int> g_mode{0};
std::atomic<std::int64_t> g_offset{0};
// Frozen bases: steady ~ 11.5 days of uptime, system = 2027-01-15.
constexpr std::int64_t kSteadyBase = 1'000'000'000'000'000LL;
constexpr std::int64_t kSystemBase = 1'800'000'000'000'000'000LL;

std::int64_t real_ns(clockid_t id) {
    timespec ts{};
    clock_gettime(id, &ts);
    return static_cast<std::int64_t>(ts.tv_sec) * 1'000'000'000LL + ts.tv_nsec;
}
}  // namespace

namespace vclk {
void freeze() {
    g_offset.store(0);
    g_mode.store(2);
}
void offset_mode() {
    g_offset.store(0);
    g_mode.store(1);
}
void real_mode() {
    g_offset.store(0);
    g_mode.store(0);
}
void advance(std::chrono::nanoseconds d) { g_offset.fetch_add(d.count()); }
void advance_s(std::int64_t seconds) { g_offset.fetch_add(seconds * 1'000'000'000LL); }
std::int64_t offset_ns() { return g_offset.load(); }
bool frozen() { return g_mode.load() == 2; }
std::chrono::steady_clock::time_point steady_now() { return std::chrono::steady_clock::now(); }
std::chrono::system_clock::time_point system_now() { return std::chrono::system_clock::now(); }
}  // namespace vclk

namespace std::chrono {
inline namespace _V2 {
steady_clock::time_point steady_clock::now() noexcept {
    const int mode = g_mode.load(std::memory_order_relaxed);
    std::int64_t ns;
    if (mode == 2) {
        ns = kSteadyBase + g_offset.load(std::memory_order_relaxed);
    } else {
        ns = real_ns(CLOCK_MONOTONIC);
        if (mode == 1) ns += g_offset.load(std::memory_order_relaxed);
    }
    return time_point(duration(ns));
}
system_clock::time_point system_clock::now() noexcept {
    const int mode = g_mode.load(std::memory_order_relaxed);
    std::int64_t ns;
    if (mode == 2) {
        ns = kSystemBase + g_offset.load(std::memory_order_relaxed);
    } else {
        ns = real_ns(CLOCK_REALTIME);
        if (mode == 1) ns += g_offset.load(std::memory_order_relaxed);
    }
    return time_point(duration(ns));
}
}  // namespace _V2
}  // namespace std::chrono

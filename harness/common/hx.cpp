#include "hx.hpp"

#include <fcntl.h>
#include <sys/stat.h>
#include <unistd.h>

#include <cinttypes>
#include <cstdlib>
#include <cstring>
#include <exception>
#include <iostream>
#include <typeinfo>

namespace hx {

static std::uint64_t splitmix(std::uint64_t& x) {
    x += 0x9E3779B97F4A7C15ULL;
    std::uint64_t z = x;
    z = (z ^ (z >> 30)) * 0xBF58476D1CE4E5B9ULL;
    z = (z ^ (z >> 27)) * 0x94D049BB133111EBULL;
    return z ^ (z >> 31);
}

Rng::Rng(std::uint64_t seed) {
    std::uint64_t x = seed;
    for (auto& v : s) v = splitmix(x);
}
static inline std::uint64_t rotl(std::uint64_t x, int k) { return (x << k) | (x >> (64 - k)); }
std::uint64_t Rng::next() {
    const std::uint64_t result = rotl(s[1] * 5, 7) * 9;
    const std::uint64_t t = s[1] << 17;
    s[2] ^= s[0];
    s[3] ^= s[1];
    s[1] ^= s[2];
    s[0] ^= s[3];
    s[2] ^= t;
    s[3] = rotl(s[3], 45);
    return result;
}
std::vector<std::uint8_t> Rng::bytes(std::size_t n) {
    std::vector<std::uint8_t> v(n);
    std::size_t i = 0;
    while (i + 8 <= n) {
        const auto r = next();
        std::memcpy(v.data() + i, &r, 8);
        i += 8;
    }
    while (i < n) v[i++] = byte();
    return v;
}

std::uint64_t mix(std::uint64_t a, std::uint64_t b) {
    std::uint64_t x = a ^ (b + 0x9E3779B97F4A7C15ULL + (a << 6) + (a >> 2));
    return splitmix(x);
}
std::uint64_t hash_bytes(const void* p, std::size_t n, std::uint64_t h) {
    const auto* b = static_cast<const unsigned char*>(p);
    for (std::size_t i = 0; i < n; ++i) {
        h ^= b[i];
        h *= 1099511628211ULL;
    }
    return h;
}

std::string jstr(std::string_view s) {
    std::string o;
    o.reserve(s.size() + 2);
    o.push_back('"');
    for (unsigned char c : s) {
        switch (c) {
            case '"': o += "\\\""; break;
            case '\\': o += "\\\\"; break;
            case '\n': o += "\\n"; break;
            case '\r': o += "\\r"; break;
            case '\t': o += "\\t"; break;
            default:
                if (c < 0x20 || c >= 0x7f) {
                    char buf[8];
                    std::snprintf(buf, sizeof buf, "\\u%04x", c);
                    o += buf;
                } else {
                    o.push_back(static_cast<char>(c));
                }
        }
    }
    o.push_back('"');
    return o;
}
std::string hex(const void* p, std::size_t n) {
    static const char* d = "0123456789abcdef";
    const auto* b = static_cast<const unsigned char*>(p);
    std::string o;
    o.reserve(n * 2);
    for (std::size_t i = 0; i < n; ++i) {
        o.push_back(d[b[i] >> 4]);
        o.push_back(d[b[i] & 15]);
    }
    return o;
}
J& J::kv(std::string_view k, double v) {
    char buf[64];
    std::snprintf(buf, sizeof buf, "%.9g", v);
    return raw(k, buf);
}
J& J::raw(std::string_view k, std::string_view json) {
    if (!body_.empty()) body_.push_back(',');
    body_ += jstr(k);
    body_.push_back(':');
    body_ += json;
    return *this;
}
std::string jarr(const std::vector<std::string>& items) {
    std::string o = "[";
    for (std::size_t i = 0; i < items.size(); ++i) {
        if (i) o.push_back(',');
        o += items[i];
    }
    o.push_back(']');
    return o;
}

// ---------------------------------------------------------------- Ctx
void Ctx::note(std::string_view k, std::uint64_t add) { counters[std::string(k)] += add; }
void Ctx::note_max(std::string_view k, std::uint64_t v) {
    auto& c = counters["max:" + std::string(k)];
    if (v > c) c = v;
}
void Ctx::sample(const std::string& json) {
    if (samples_written >= 3 || !log) return;
    ++samples_written;
    std::fprintf(log, "{\"t\":\"sample\",\"case\":%" PRIu64 ",\"data\":%s}\n", cur_case, json.c_str());
    std::fflush(log);
}
void Ctx::sig(std::uint64_t signature, bool nontrivial) {
    if (nontrivial) {
        sigs.insert(signature);
        if (!case_sig_set_) {
            ++nontrivial_cases;
            case_sig_set_ = true;
        }
    }
}
void Ctx::violation(const std::string& key, const std::string& detail_json) {
    ++case_violations_;
    ++violations_total;
    auto& n = violation_keys[key];
    ++n;
    if (n <= 3 && log) {
        std::fprintf(log,
                     "{\"t\":\"violation\",\"prop\":%s,\"seed\":%" PRIu64 ",\"case\":%" PRIu64
                     ",\"key\":%s,\"detail\":%s}\n",
                     jstr(prop).c_str(), seed, cur_case, jstr(key).c_str(),
                     detail_json.empty() ? "{}" : detail_json.c_str());
        std::fflush(log);
    }
}
std::string Ctx::param(const std::string& k, const std::string& dflt) const {
    auto it = params.find(k);
    return it == params.end() ? dflt : it->second;
}
std::int64_t Ctx::param_i(const std::string& k, std::int64_t dflt) const {
    auto it = params.find(k);
    return it == params.end() ? dflt : std::strtoll(it->second.c_str(), nullptr, 10);
}

static std::map<std::string, PropSpec>& registry() {
    static std::map<std::string, PropSpec> r;
    return r;
}
void register_property(const std::string& id, PropSpec spec) { registry()[id] = std::move(spec); }

static void write_cur(Ctx& c) {
    if (c.cur_fd < 0) return;
    char buf[64];
    const int n = std::snprintf(buf, sizeof buf, "case=%-20" PRIu64 "\n", c.cur_case);
    (void)!pwrite(c.cur_fd, buf, static_cast<size_t>(n), 0);
}

static void write_summary(Ctx& c, const char* status) {
    if (!c.log) return;
    std::string counters = "{";
    bool first = true;
    for (const auto& [k, v] : c.counters) {
        if (!first) counters.push_back(',');
        first = false;
        counters += jstr(k) + ":" + std::to_string(v);
    }
    counters.push_back('}');
    std::string keys = "{";
    first = true;
    for (const auto& [k, v] : c.violation_keys) {
        if (!first) keys.push_back(',');
        first = false;
        keys += jstr(k) + ":" + std::to_string(v);
    }
    keys.push_back('}');
    std::fprintf(c.log,
                 "{\"t\":\"summary\",\"status\":\"%s\",\"prop\":%s,\"worker\":%u,\"evaluations\":%" PRIu64
                 ",\"nontrivial\":%" PRIu64 ",\"distinct\":%zu,\"violations\":%" PRIu64
                 ",\"violation_keys\":%s,\"counters\":%s}\n",
                 status, jstr(c.prop).c_str(), c.worker, c.evaluations, c.nontrivial_cases, c.sigs.size(),
                 c.violations_total, keys.c_str(), counters.c_str());
    std::fflush(c.log);
}

}  // namespace hx

int main(int argc, char** argv) {
    using namespace hx;
    if (argc < 2) {
        std::fprintf(stderr, "usage: %s <PROP> [--seed S --cases N --worker W --workers K --log F --cur F --scratch D --only C --start C --thorough --param k=v]\n", argv[0]);
        for (auto& [k, v] : registry()) std::fprintf(stderr, "  property %s\n", k.c_str());
        return 2;
    }
    Ctx c;
    c.prop = argv[1];
    std::string log_path, cur_path;
    std::uint64_t start = 0;
    for (int i = 2; i < argc; ++i) {
        std::string a = argv[i];
        auto nextarg = [&]() -> std::string { return i + 1 < argc ? argv[++i] : ""; };
        if (a == "--seed") c.seed = std::strtoull(nextarg().c_str(), nullptr, 10);
        else if (a == "--cases") c.cases = std::strtoull(nextarg().c_str(), nullptr, 10);
        else if (a == "--worker") c.worker = static_cast<unsigned>(std::strtoul(nextarg().c_str(), nullptr, 10));
        else if (a == "--workers") c.workers = static_cast<unsigned>(std::strtoul(nextarg().c_str(), nullptr, 10));
        else if (a == "--log") log_path = nextarg();
        else if (a == "--cur") cur_path = nextarg();
        else if (a == "--scratch") c.scratch = nextarg();
        else if (a == "--only") c.only = std::strtoll(nextarg().c_str(), nullptr, 10);
        else if (a == "--start") start = std::strtoull(nextarg().c_str(), nullptr, 10);
        else if (a == "--thorough") c.thorough = true;
        else if (a == "--param") {
            auto kv = nextarg();
            auto eq = kv.find('=');
            if (eq != std::string::npos) c.params[kv.substr(0, eq)] = kv.substr(eq + 1);
        }
    }
    auto it = registry().find(c.prop);
    if (it == registry().end()) {
        std::fprintf(stderr, "unknown property %s\n", c.prop.c_str());
        return 2;
    }
    if (c.workers == 0) c.workers = 1;
    c.log = log_path.empty() ? stdout : std::fopen(log_path.c_str(), "a");
    if (!c.log) return 2;
    if (!cur_path.empty()) c.cur_fd = ::open(cur_path.c_str(), O_CREAT | O_WRONLY, 0644);
    if (c.scratch.empty()) {
        // replay / manual run convenience
        char tmpl[] = "/var/tmp/hx-scratch-XXXXXX";
        if (const char* d = mkdtemp(tmpl)) c.scratch = d;
    }
    std::fprintf(c.log, "{\"t\":\"start\",\"prop\":%s,\"seed\":%" PRIu64 ",\"worker\":%u,\"workers\":%u,\"cases\":%" PRIu64 "}\n",
                 jstr(c.prop).c_str(), c.seed, c.worker, c.workers, c.cases);
    std::fflush(c.log);

    const std::uint64_t base = mix(c.seed, hash_str(c.prop));
    auto& spec = it->second;
    if (spec.setup) spec.setup(c);

    auto run_one = [&](std::uint64_t idx) {
        c.cur_case = idx;
        c.case_violations_ = 0;
        c.case_sig_set_ = false;
        write_cur(c);
        Rng rng(mix(base, idx));
        ++c.evaluations;
        try {
            spec.fn(c, rng);
        } catch (const std::exception& e) {
            // An exception escaping a case function is a harness-level surprise:
            // report it as a violation keyed by the exception type so that it is
            // routed through known-findings matching like anything else.
            c.violation(std::string("harness-uncaught:") + typeid(e).name(),
                        J().kv("what", e.what()).str());
        }
    };

    if (c.only >= 0) {
        run_one(static_cast<std::uint64_t>(c.only));
    } else {
        for (std::uint64_t idx = c.worker; idx < c.cases; idx += c.workers) {
            if (idx < start) continue;
            run_one(idx);
            if (c.violations_total >= 40) break;
        }
    }
    if (spec.finish) spec.finish(c);
    write_summary(c, "done");
    if (!log_path.empty()) {
        const std::string sp = log_path + ".sigs";
        if (FILE* f = std::fopen(sp.c_str(), "ab")) {
            for (auto s : c.sigs) std::fwrite(&s, 8, 1, f);
            std::fclose(f);
        }
    }
    if (c.log != stdout) std::fclose(c.log);
    // Skip static destructors of the code under test (detached threads etc.).
    std::fflush(nullptr);
    _exit(c.violations_total ? 1 : 0);
}

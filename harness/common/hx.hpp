// Harness framework: case loop, PRNG, event log, violations, signatures.
// Every harness executable links hx.cpp (which has main()) and registers
// properties with HX_PROPERTY(id, fn).
#pragma once
#include <array>
#include <cstdint>
#include <cstdio>
#include <functional>
#include <map>
#include <set>
#include <sstream>
#include <string>
#include <string_view>
#include <vector>

namespace hx {

// ---------------------------------------------------------------- PRNG
struct Rng {
    std::uint64_t s[4];
    explicit Rng(std::uint64_t seed);
    std::uint64_t next();
    // uniform in [0, n)
    std::uint64_t below(std::uint64_t n) { return n == 0 ? 0 : next() % n; }
    // uniform in [lo, hi]
    std::int64_t range(std::int64_t lo, std::int64_t hi) {
        return lo + static_cast<std::int64_t>(below(static_cast<std::uint64_t>(hi - lo) + 1));
    }
    bool chance(unsigned num, unsigned den) { return below(den) < num; }
    std::uint8_t byte() { return static_cast<std::uint8_t>(next() >> 56); }
    template <class T>
    const T& pick(const std::vector<T>& v) { return v[below(v.size())]; }
    template <class T, std::size_t N>
    const T& pick(const std::array<T, N>& v) { return v[below(N)]; }
    std::vector<std::uint8_t> bytes(std::size_t n);
    template <std::size_t N>
    std::array<std::uint8_t, N> arr() {
        std::array<std::uint8_t, N> a{};
        for (auto& b : a) b = byte();
        return a;
    }
    // re-seedable state for reporting
    using result_type = std::uint64_t;
    static constexpr result_type min() { return 0; }
    static constexpr result_type max() { return ~0ULL; }
    result_type operator()() { return next(); }
};

std::uint64_t mix(std::uint64_t a, std::uint64_t b);
std::uint64_t hash_bytes(const void* p, std::size_t n, std::uint64_t h = 1469598103934665603ULL);
inline std::uint64_t hash_str(std::string_view s, std::uint64_t h = 1469598103934665603ULL) {
    return hash_bytes(s.data(), s.size(), h);
}

// ---------------------------------------------------------------- JSON helpers
std::string jstr(std::string_view s);            // quoted + escaped JSON string
std::string hex(const void* p, std::size_t n);   // lowercase hex
template <class C>
std::string hexs(const C& c) { return hex(c.data(), c.size()); }

// Tiny JSON object builder:  J().kv("a",1).kv("b","x").str()
class J {
public:
    J& kv(std::string_view k, std::string_view v) { return raw(k, jstr(v)); }
    J& kv(std::string_view k, const char* v) { return raw(k, jstr(v)); }
    J& kv(std::string_view k, const std::string& v) { return raw(k, jstr(v)); }
    J& kv(std::string_view k, bool v) { return raw(k, v ? "true" : "false"); }
    J& kv(std::string_view k, double v);
    template <class I, class = std::enable_if_t<std::is_integral_v<I> && !std::is_same_v<I, bool>>>
    J& kv(std::string_view k, I v) { return raw(k, std::to_string(v)); }
    J& raw(std::string_view k, std::string_view json);
    std::string str() const { return "{" + body_ + "}"; }
private:
    std::string body_;
};
std::string jarr(const std::vector<std::string>& raw_items);

// ---------------------------------------------------------------- context
struct Ctx {
    std::string prop;
    std::uint64_t seed{1};
    std::uint64_t cases{0};
    unsigned worker{0};
    unsigned workers{1};
    bool thorough{false};
    std::int64_t only{-1};            // replay: run just this case
    std::uint64_t cur_case{0};
    std::string scratch;              // per-worker scratch directory (exists)
    std::map<std::string, std::string> params;

    // case bookkeeping
    void note(std::string_view k, std::uint64_t add = 1);          // counter
    void note_max(std::string_view k, std::uint64_t v);
    void sample(const std::string& json);                         // write a sample (first few kept)
    void sig(std::uint64_t signature, bool nontrivial = true);     // distinct-case signature
    void violation(const std::string& key, const std::string& detail_json);
    bool failed_this_case() const { return case_violations_ > 0; }
    std::string param(const std::string& k, const std::string& dflt = "") const;
    std::int64_t param_i(const std::string& k, std::int64_t dflt) const;

    // internals
    FILE* log{nullptr};
    int cur_fd{-1};
    std::map<std::string, std::uint64_t> counters;
    std::set<std::uint64_t> sigs;
    std::uint64_t nontrivial_cases{0};
    std::uint64_t evaluations{0};
    std::uint64_t violations_total{0};
    std::map<std::string, std::uint64_t> violation_keys;
    unsigned samples_written{0};
    unsigned case_violations_{0};
    bool case_sig_set_{false};
};

using CaseFn = std::function<void(Ctx&, Rng&)>;
struct PropSpec {
    CaseFn fn;
    // optional: called once per process before the first case / after the last one
    std::function<void(Ctx&)> setup;
    std::function<void(Ctx&)> finish;
};
void register_property(const std::string& id, PropSpec spec);
struct Registrar {
    Registrar(const char* id, CaseFn fn) { register_property(id, PropSpec{std::move(fn), {}, {}}); }
    Registrar(const char* id, PropSpec spec) { register_property(id, std::move(spec)); }
};

#define HX_CAT2(a, b) a##b
#define HX_CAT(a, b) HX_CAT2(a, b)
#define HX_PROPERTY(id, fn) static ::hx::Registrar HX_CAT(hx_reg_, __LINE__)(id, fn)

// check helper: records a violation when cond is false; returns cond
#define HX_CHECK(ctx, cond, key, detail) \
    ((cond) ? true : ((ctx).violation((key), (detail)), false))

}  // namespace hx

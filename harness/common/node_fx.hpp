// Deterministic Node driving: fake peers attached through AF_UNIX socketpairs.
// Inbound messages are delivered synchronously via Node::handle_transport_message;
// outbound frames are read from the harness end of the socketpair and decoded.
#pragma once
#include <fcntl.h>
#include <poll.h>
#include <sys/socket.h>
#include <unistd.h>

#include <iostream>
#include <memory>
#include <mutex>
#include <optional>
#include <vector>

#include "ephemeralnet/core/Node.hpp"
#include "ephemeralnet/protocol/Message.hpp"
#include "hx.hpp"
#include "ref_crypto.hpp"
#include "vclock.hpp"

namespace fx {
using namespace ephemeralnet;

struct NullBuf : std::streambuf {
    int overflow(int c) override { return c; }
};
inline void silence_cerr() {
    static NullBuf nb;
    std::cerr.rdbuf(&nb);
}

struct FakePeer {
    PeerId id{};
    int fd{-1};              // harness end
    std::vector<std::uint8_t> rx;   // undecoded bytes
    std::vector<std::array<std::uint8_t, 32>> keys;   // session keys seen so far (rotation), newest last
};

struct Frame {
    std::vector<std::uint8_t> plaintext;
    std::array<std::uint8_t, 12> nonce{};
    std::optional<protocol::Message> message;   // decode_signed under the current session key
};

// Listening ports of real transports are taken from a small per-process pool and reused from case to case (the node sets
// SO_REUSEADDR).  A fresh ephemeral port per case would stay blocked for a minute by the TIME_WAIT remains of its connections;
// a long run then eats the whole ephemeral port range and fails every other program on the machine as well.
struct PortPool {
    struct Slot { std::uint16_t port; bool in_use; };
    std::vector<Slot> slots;
    std::mutex m;
    static PortPool& get() { static PortPool p; return p; }
    // starts the node's transport; returns the slot index (or -1 when an ephemeral port outside the pool had to be used)
    int start(Node& node) {
        std::scoped_lock lock(m);
        for (std::size_t i = 0; i < slots.size(); ++i) {
            if (slots[i].in_use) continue;
            try { node.start_transport(slots[i].port); slots[i].in_use = true; return static_cast<int>(i); }
            catch (const std::exception&) { /* taken by another process meanwhile: try the next, or a new one */ }
        }
        node.start_transport(0);
        if (slots.size() < 8) { slots.push_back(Slot{node.transport_port(), true}); return static_cast<int>(slots.size()) - 1; }
        return -1;
    }
    void release(int slot) { std::scoped_lock lock(m); if (slot >= 0 && static_cast<std::size_t>(slot) < slots.size()) slots[static_cast<std::size_t>(slot)].in_use = false; }
};

// Stops a node's transport and destroys it only once every session reader thread has finished.  SessionManager::stop()
// itself waits two seconds per session and then goes on; on a loaded machine a reader thread can still be inside its last
// handler at that point, and destroying the Node under it is object life-time at teardown, not what any harness is about
// (the daemon exits instead).  If a reader is still alive after a minute the Node is leaked rather than destroyed.
inline void stop_and_destroy(std::unique_ptr<Node>& node) {
    if (!node) return;
    std::vector<std::shared_ptr<network::SessionManager::Session>> readers;
    {
        std::scoped_lock lock(node->sessions_.sessions_mutex_);
        for (auto& [k, sp] : node->sessions_.sessions_) { (void)k; if (sp) readers.push_back(sp); }
    }
    node->stop_transport();
    timespec t0{};
    clock_gettime(CLOCK_MONOTONIC, &t0);
    for (auto& sp : readers) {
        while (sp->alive.load()) {
            timespec t1{};
            clock_gettime(CLOCK_MONOTONIC, &t1);
            if (t1.tv_sec - t0.tv_sec > 60) { (void)node.release(); return; }
            ::usleep(2000);
        }
    }
    node.reset();
}

class NodeFx {
public:
    std::unique_ptr<Node> node;
    std::vector<std::unique_ptr<FakePeer>> peers;

    NodeFx(const PeerId& id, const Config& cfg) : node(std::make_unique<Node>(id, cfg)) {}
    ~NodeFx() { shutdown(); }

    void shutdown() {
        if (!node) return;
        node->sessions_.teardown_sessions();
        for (auto& p : peers) if (p->fd >= 0) { ::close(p->fd); p->fd = -1; }
        node.reset();
    }

    // register a shared secret and (optionally) a live session for a fake peer
    FakePeer& add_peer(const PeerId& id, hx::Rng& r, bool with_session = true) {
        crypto::Key secret{};
        secret.bytes = r.arr<32>();
        node->register_shared_secret(id, secret);
        auto p = std::make_unique<FakePeer>();
        p->id = id;
        if (with_session) {
            int sv[2];
            if (::socketpair(AF_UNIX, SOCK_STREAM, 0, sv) != 0) throw std::runtime_error("socketpair");
            int sz = 4 * 1024 * 1024;
            ::setsockopt(sv[0], SOL_SOCKET, SO_SNDBUF, &sz, sizeof sz);
            ::setsockopt(sv[1], SOL_SOCKET, SO_RCVBUF, &sz, sizeof sz);
            node->sessions_.adopt_outbound_socket(id, sv[0], true);
            p->fd = sv[1];
            ::fcntl(p->fd, F_SETFL, ::fcntl(p->fd, F_GETFL, 0) | O_NONBLOCK);
        }
        p->keys.push_back(*node->session_key(id));
        peers.push_back(std::move(p));
        return *peers.back();
    }

    std::array<std::uint8_t, 32> key_of(const FakePeer& p) const { return *node->session_key(p.id); }

    void deliver(const FakePeer& p, const protocol::Message& m) {
        const auto key = key_of(p);
        network::TransportMessage tm{};
        tm.peer_id = p.id;
        tm.payload = protocol::encode_signed(m, std::span<const std::uint8_t>(key.data(), key.size()));
        tm.endpoint = "fake";
        node->handle_transport_message(tm);
    }
    void deliver_raw(const FakePeer& p, std::vector<std::uint8_t> signed_bytes) {
        network::TransportMessage tm{};
        tm.peer_id = p.id;
        tm.payload = std::move(signed_bytes);
        tm.endpoint = "fake";
        node->handle_transport_message(tm);
    }

    // everything the node has sent to this peer so far
    std::vector<Frame> drain(FakePeer& p) {
        std::vector<Frame> out;
        if (p.fd < 0) return out;
        std::uint8_t buf[65536];
        while (true) {
            const auto n = ::read(p.fd, buf, sizeof buf);
            if (n > 0) p.rx.insert(p.rx.end(), buf, buf + n);
            else break;
        }
        const auto current = key_of(p);
        if (p.keys.empty() || p.keys.back() != current) p.keys.push_back(current);
        std::size_t off = 0;
        while (p.rx.size() - off >= 16) {
            const std::uint32_t len = (std::uint32_t(p.rx[off + 12]) << 24) | (std::uint32_t(p.rx[off + 13]) << 16) | (std::uint32_t(p.rx[off + 14]) << 8) | p.rx[off + 15];
            if (p.rx.size() - off - 16 < len) break;
            Frame f;
            std::copy(p.rx.begin() + off, p.rx.begin() + off + 12, f.nonce.begin());
            // a frame may have been sealed under a key that has since been rotated: try the newest first
            for (auto kit = p.keys.rbegin(); kit != p.keys.rend(); ++kit) {
                f.plaintext = ref::chacha20_rfc(kit->data(), f.nonce.data(), 0, std::span<const std::uint8_t>(p.rx.data() + off + 16, len));
                f.message = protocol::decode_signed(std::span<const std::uint8_t>(f.plaintext.data(), f.plaintext.size()), std::span<const std::uint8_t>(kit->data(), kit->size()));
                if (f.message) break;
            }
            out.push_back(std::move(f));
            off += 16 + len;
        }
        p.rx.erase(p.rx.begin(), p.rx.begin() + static_cast<std::ptrdiff_t>(off));
        return out;
    }
};

inline PeerId peer_id_n(unsigned n, std::uint8_t salt = 0x50) {
    PeerId id{};
    id.fill(salt);
    id[0] = static_cast<std::uint8_t>(n);
    id[1] = static_cast<std::uint8_t>(n >> 8);
    id[31] = static_cast<std::uint8_t>(n * 11 + 3);
    return id;
}
inline ChunkId chunk_id_n(unsigned n) {
    ChunkId id{};
    id.fill(0x20);
    id[0] = static_cast<std::uint8_t>(n);     // low counter bytes: ChaCha20 counter derives from id[0..3]
    id[1] = static_cast<std::uint8_t>(n >> 8);
    id[30] = static_cast<std::uint8_t>(n * 5 + 1);
    return id;
}

inline std::int64_t steady_ns() { return std::chrono::steady_clock::now().time_since_epoch().count(); }
inline std::int64_t system_ns() { return std::chrono::system_clock::now().time_since_epoch().count(); }

}  // namespace fx

// Independent references: OpenSSL libcrypto for SHA-256 / HMAC / ChaCha20 and an
// RFC 8439 pseudocode block function for counter-wrap cases.
#pragma once
#include <openssl/evp.h>
#include <openssl/hmac.h>
#include <openssl/sha.h>

#include <array>
#include <cstdint>
#include <cstring>
#include <span>
#include <vector>

namespace ref {

inline std::array<std::uint8_t, 32> sha256(std::span<const std::uint8_t> d) {
    std::array<std::uint8_t, 32> out{};
    SHA256(d.data(), d.size(), out.data());
    return out;
}

inline std::array<std::uint8_t, 32> hmac_sha256(std::span<const std::uint8_t> key, std::span<const std::uint8_t> d) {
    std::array<std::uint8_t, 32> out{};
    unsigned len = 32;
    static const unsigned char dummy = 0;
    HMAC(EVP_sha256(), key.empty() ? &dummy : key.data(), static_cast<int>(key.size()),
         d.empty() ? &dummy : d.data(), d.size(), out.data(), &len);
    return out;
}

// RFC 8439 §2.3 block function written from the pseudocode.
inline std::uint32_t rotl(std::uint32_t v, int n) { return (v << n) | (v >> (32 - n)); }
inline void qr(std::uint32_t* s, int a, int b, int c, int d) {
    s[a] += s[b]; s[d] ^= s[a]; s[d] = rotl(s[d], 16);
    s[c] += s[d]; s[b] ^= s[c]; s[b] = rotl(s[b], 12);
    s[a] += s[b]; s[d] ^= s[a]; s[d] = rotl(s[d], 8);
    s[c] += s[d]; s[b] ^= s[c]; s[b] = rotl(s[b], 7);
}
inline std::uint32_t le32(const std::uint8_t* p) {
    return std::uint32_t(p[0]) | (std::uint32_t(p[1]) << 8) | (std::uint32_t(p[2]) << 16) | (std::uint32_t(p[3]) << 24);
}
inline void chacha20_block(const std::uint8_t key[32], const std::uint8_t nonce[12], std::uint32_t counter,
                           std::uint8_t out[64]) {
    std::uint32_t st[16] = {0x61707865u, 0x3320646eu, 0x79622d32u, 0x6b206574u};
    for (int i = 0; i < 8; ++i) st[4 + i] = le32(key + 4 * i);
    st[12] = counter;
    for (int i = 0; i < 3; ++i) st[13 + i] = le32(nonce + 4 * i);
    std::uint32_t w[16];
    std::memcpy(w, st, sizeof w);
    for (int i = 0; i < 10; ++i) {
        qr(w, 0, 4, 8, 12); qr(w, 1, 5, 9, 13); qr(w, 2, 6, 10, 14); qr(w, 3, 7, 11, 15);
        qr(w, 0, 5, 10, 15); qr(w, 1, 6, 11, 12); qr(w, 2, 7, 8, 13); qr(w, 3, 4, 9, 14);
    }
    for (int i = 0; i < 16; ++i) {
        const std::uint32_t v = w[i] + st[i];
        out[4 * i] = std::uint8_t(v); out[4 * i + 1] = std::uint8_t(v >> 8);
        out[4 * i + 2] = std::uint8_t(v >> 16); out[4 * i + 3] = std::uint8_t(v >> 24);
    }
}
// keystream XOR with a 32-bit block counter that wraps modulo 2^32 (RFC 8439 layout)
inline std::vector<std::uint8_t> chacha20_rfc(const std::uint8_t key[32], const std::uint8_t nonce[12],
                                              std::uint32_t counter, std::span<const std::uint8_t> in) {
    std::vector<std::uint8_t> out(in.size());
    std::uint8_t ks[64];
    for (std::size_t off = 0; off < in.size(); off += 64) {
        chacha20_block(key, nonce, counter++, ks);
        const std::size_t n = std::min<std::size_t>(64, in.size() - off);
        for (std::size_t i = 0; i < n; ++i) out[off + i] = in[off + i] ^ ks[i];
    }
    return out;
}
// OpenSSL EVP_chacha20: IV = LE32(counter) || nonce.  Only valid when the counter
// does not wrap within the message (OpenSSL carries into the nonce words).
inline std::vector<std::uint8_t> chacha20_openssl(const std::uint8_t key[32], const std::uint8_t nonce[12],
                                                  std::uint32_t counter, std::span<const std::uint8_t> in) {
    std::uint8_t iv[16];
    iv[0] = std::uint8_t(counter); iv[1] = std::uint8_t(counter >> 8);
    iv[2] = std::uint8_t(counter >> 16); iv[3] = std::uint8_t(counter >> 24);
    std::memcpy(iv + 4, nonce, 12);
    std::vector<std::uint8_t> out(in.size() + 64);
    EVP_CIPHER_CTX* c = EVP_CIPHER_CTX_new();
    EVP_EncryptInit_ex(c, EVP_chacha20(), nullptr, key, iv);
    int n = 0, total = 0;
    if (!in.empty()) {
        EVP_EncryptUpdate(c, out.data(), &n, in.data(), static_cast<int>(in.size()));
        total = n;
    }
    EVP_EncryptFinal_ex(c, out.data() + total, &n);
    total += n;
    EVP_CIPHER_CTX_free(c);
    out.resize(static_cast<std::size_t>(total));
    return out;
}

}  // namespace ref

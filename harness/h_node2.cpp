// Node-level monitors, part 2:
//   C19 PoW validators / solvers / leading-zero counters     C20 inbound handshake admission (logic level)
//   C21 announce admission + throttle + lock-out             C22 swarm plans
//   C23 upload limits and slot release                       C24 fetch scheduling
//   C31n filename metadata recorded by the node               C34 auto-advertise filtering
#include <arpa/inet.h>

#include <algorithm>
#include <cmath>
#include <map>
#include <set>

#include "common/gen_manifest.hpp"
#include "common/hx.hpp"
#include "common/node_fx.hpp"
#include "common/ref_crypto.hpp"
#include "common/vclock.hpp"
#include "ephemeralnet/bootstrap/TokenChallenge.hpp"
#include "ephemeralnet/core/SwarmCoordinator.hpp"
#include "ephemeralnet/network/KeyExchange.hpp"
#include "ephemeralnet/network/NatTraversal.hpp"
#include "ephemeralnet/security/StoreProof.hpp"
#include "tu_cli.hpp"
#include "tu_node.hpp"

using namespace ephemeralnet;
using hx::Ctx;
using hx::J;
using hx::Rng;
using std::chrono::nanoseconds;
using std::chrono::seconds;

namespace {

constexpr std::int64_t NS = 1'000'000'000LL;
std::int64_t clampi(std::int64_t v, std::int64_t lo, std::int64_t hi) { return v < lo ? lo : (v > hi ? hi : v); }

Config base_config(Rng& r) {
    Config cfg{};
    cfg.identity_seed = static_cast<std::uint32_t>(r.next());
    cfg.announce_pow_difficulty = 0;
    cfg.handshake_pow_difficulty = 0;
    cfg.store_pow_difficulty = 0;
    cfg.nat_stun_enabled = false;
    cfg.relay_enabled = false;
    cfg.shard_threshold = 2;
    cfg.shard_total = 3;
    return cfg;
}

// the monitor's own leading-zero counter, bit by bit
std::size_t lz_ref(std::span<const std::uint8_t> d) {
    std::size_t n = 0;
    for (auto b : d) for (int bit = 7; bit >= 0; --bit) { if (b & (1u << bit)) return n; ++n; }
    return n;
}

// ------------------------------------------------------------------------------------ C19
void c19_counters(Ctx& c, Rng& r) {
    // all k = 0..256 leading zero bits x random tails; all difficulties 0..255
    for (int k = 0; k <= 256; ++k) {
        for (int rep = 0; rep < 4; ++rep) {
            std::array<std::uint8_t, 32> d = r.arr<32>();
            for (int bit = 0; bit < k; ++bit) d[bit / 8] &= static_cast<std::uint8_t>(~(0x80u >> (bit % 8)));
            if (k < 256) d[k / 8] |= static_cast<std::uint8_t>(0x80u >> (k % 8));
            const auto want = static_cast<std::size_t>(k);
            if (lz_ref(d) != want) { c.violation("harness:C19:lz-ref-broken", J().kv("k", k).str()); return; }
            c.note("counters.digests");
            const auto a = tu_node::count_leading_zero_bits(d);
            const auto b = tu_storeproof::count_leading_zero_bits(d);
            const auto e = tu_cli::count_leading_zero_bits(d);
            if (a != want) c.violation("C19:counter:node-disagrees", J().kv("k", k).kv("got", a).kv("digest", hx::hexs(d)).str());
            if (b != want) c.violation("C19:counter:storeproof-disagrees", J().kv("k", k).kv("got", b).kv("digest", hx::hexs(d)).str());
            if (e != want) c.violation("C19:counter:cli-disagrees", J().kv("k", k).kv("got", e).kv("digest", hx::hexs(d)).str());
            for (int bits = 0; bits <= 255; ++bits) {
                const bool m = bootstrap::digest_meets_difficulty(d, static_cast<std::uint8_t>(bits));
                if (m != (k >= bits)) { c.violation("C19:counter:digest_meets_difficulty-disagrees", J().kv("k", k).kv("bits", bits).kv("got", m).str()); break; }
            }
            c.note("counters.difficulty-checks", 256);
        }
    }
    c.note("counters.exhaustive-prefix-classes", 257);
}

std::array<std::uint8_t, 32> token_digest(const protocol::Manifest& m, const std::string& endpoint, std::uint64_t nonce) {
    std::vector<std::uint8_t> mat(m.chunk_id.begin(), m.chunk_id.end());
    mat.insert(mat.end(), m.chunk_hash.begin(), m.chunk_hash.end());
    mat.insert(mat.end(), endpoint.begin(), endpoint.end());
    for (int s = 56; s >= 0; s -= 8) mat.push_back(static_cast<std::uint8_t>(nonce >> s));
    return ref::sha256(mat);
}

void c19_case(Ctx& c, Rng& r) {
    if (c.cur_case == 0) { c19_counters(c, r); c.sig(1); return; }
    const auto surface = c.cur_case % 4;
    const auto d = static_cast<std::uint8_t>(r.chance(1, 8) ? 0 : 1 + r.below(8));
    Config cfg = base_config(r);
    cfg.handshake_cooldown = seconds(0);
    cfg.handshake_pow_difficulty = d;
    cfg.announce_pow_difficulty = d;
    cfg.store_pow_difficulty = d;
    std::uint64_t sig = hx::mix(surface, d);
    if (surface == 0) {
        // handshake: validator = Node::perform_handshake (cool-down 0), digest = Node.cpp's own, CLI copy must agree
        const PeerId self = r.arr<32>(), claimed = r.arr<32>();
        const bool cooldown_on = r.chance(1, 2);
        Config vcfg = cfg;
        if (cooldown_on) vcfg.handshake_cooldown = seconds(5);   // the deployed default; the clock does not move during the loop
        Node node(self, vcfg);
        const std::uint32_t scalar = static_cast<std::uint32_t>(r.range(2, network::KeyExchange::kPrime - 2));
        const std::uint32_t pub = network::KeyExchange::compute_public(scalar);
        const std::uint64_t base = r.next();
        std::vector<bool> vec;
        std::uint64_t accepted = 0;
        const int N = 512;
        for (int i = 0; i < N; ++i) {
            const std::uint64_t nonce = base + static_cast<std::uint64_t>(i);
            const auto dg = tu_node::handshake_digest(claimed, self, pub, nonce);
            const bool want = d == 0 || lz_ref(dg) >= d;
            const bool got = node.perform_handshake(claimed, pub, nonce);
            c.note("validators.handshake-samples");
            if (got != want) c.violation(std::string("C19:handshake:validator-") + (got ? "accepts-below-target" : "rejects-valid"), J().kv("d", d).kv("lz", lz_ref(dg)).kv("nonce", nonce).str());
            const bool cli = tu_cli::transport_pow_valid(claimed, self, pub, nonce, d);
            if (cli != want) c.violation("C19:handshake:cli-validator-disagrees", J().kv("d", d).kv("lz", lz_ref(dg)).str());
            if (tu_cli::transport_digest(claimed, self, pub, nonce) != dg) c.violation("C19:handshake:cli-and-node-digests-differ", J().kv("nonce", nonce).str());
            // the same offer again straight away (a reconnecting or a persistent peer): same verdict, whatever was offered
            // before; with a cool-down this goes through the "already validated" record instead of the hash
            if (cooldown_on) {
                const bool again = node.perform_handshake(claimed, pub, nonce);
                c.note("validators.handshake-repeats-inside-cooldown");
                if (again != want) c.violation(std::string("C19:handshake:validator-") + (again ? "accepts-below-target" : "rejects-valid") + ":repeat-inside-cooldown", J().kv("d", d).kv("lz", lz_ref(dg)).kv("nonce", nonce).kv("first_verdict", got).str());
            }
            vec.push_back(got);
            accepted += got;
        }
        // binding: changing one field changes the acceptance vector (d >= 2 so the vector is informative)
        if (d >= 2 && d <= 6) {
            auto variant = [&](const char* what, const PeerId& cl, const PeerId& me, std::uint32_t pk) {
                Node n2(me, cfg);
                std::vector<bool> v2;
                for (int i = 0; i < N; ++i) v2.push_back(n2.perform_handshake(cl, pk, base + static_cast<std::uint64_t>(i)));
                c.note("binding.field-variations");
                if (v2 == vec) c.violation(std::string("C19:handshake:acceptance-independent-of-") + what, J().kv("d", d).str());
            };
            PeerId c2 = claimed; c2[r.below(32)] ^= static_cast<std::uint8_t>(1u << r.below(8));
            PeerId s2 = self; s2[r.below(32)] ^= static_cast<std::uint8_t>(1u << r.below(8));
            variant("claimed-peer", c2, self, pub);
            variant("responder", claimed, s2, pub);
            std::uint32_t pub2 = network::KeyExchange::compute_public(scalar + 1);
            if (pub2 != pub) variant("public-key", claimed, self, pub2);
            // rate 2^-d within 6 sigma
            const double p = std::ldexp(1.0, -d), mean = N * p, sd = std::sqrt(N * p * (1 - p));
            c.note("binding.rate-checks");
            if (std::fabs(accepted - mean) > 6 * sd + 1) c.violation("C19:handshake:acceptance-rate-off", J().kv("d", d).kv("accepted", accepted).kv("expected", mean).str());
        }
        // solver: node and CLI nonces are accepted by the node and by the CLI validator
        {
            Node initiator(claimed, cfg);
            Node responder(self, cfg);
            const auto w = initiator.generate_handshake_work(self);
            c.note("solvers.handshake");
            if (!w) c.violation("C19:handshake:solver-failed", J().kv("d", d).str());
            else {
                if (!responder.perform_handshake(claimed, initiator.public_identity(), *w)) c.violation("C19:handshake:node-solver-nonce-rejected", J().kv("d", d).str());
                if (!tu_cli::transport_pow_valid(claimed, self, initiator.public_identity(), *w, d)) c.violation("C19:handshake:node-solver-nonce-rejected-by-cli", J().kv("d", d).str());
            }
            const auto wc = tu_cli::compute_transport_pow(claimed, self, pub, d);
            if (!wc) c.violation("C19:handshake:cli-solver-failed", J().kv("d", d).str());
            else {
                Node resp2(self, cfg);
                if (!resp2.perform_handshake(claimed, pub, *wc)) c.violation("C19:handshake:cli-solver-nonce-rejected-by-node", J().kv("d", d).str());
            }
        }
    } else if (surface == 1) {
        // announce
        Node node(r.arr<32>(), cfg);
        protocol::AnnouncePayload p{};
        p.chunk_id = r.arr<32>();
        p.peer_id = r.arr<32>();
        p.endpoint = "198.51.100." + std::to_string(r.below(255)) + ":" + std::to_string(1 + r.below(65000));
        p.manifest_uri = "eph://" + genm::b64(r.bytes(40 + r.below(100)));
        p.assigned_shards = r.bytes(r.below(5));
        p.ttl = seconds(1 + r.below(100000));
        const std::uint64_t base = r.next();
        const int N = 512;
        std::vector<bool> vec;
        std::uint64_t accepted = 0;
        for (int i = 0; i < N; ++i) {
            p.work_nonce = base + static_cast<std::uint64_t>(i);
            const auto dg = tu_node::announce_digest(p);
            const bool want = d == 0 || lz_ref(dg) >= d;
            const bool got = node.verify_announce_pow(p, 4);
            c.note("validators.announce-samples");
            if (got != want) c.violation(std::string("C19:announce:validator-") + (got ? "accepts-below-target" : "rejects-valid"), J().kv("d", d).kv("lz", lz_ref(dg)).str());
            vec.push_back(got);
            accepted += got;
        }
        if (d >= 1) {
            p.work_nonce = base;
            if (node.verify_announce_pow(p, 2) && d > 0) c.violation("C19:announce:version-below-3-accepted-with-pow-required", J().kv("d", d).str());
        }
        if (d >= 2 && d <= 6) {
            auto variant = [&](const char* what, protocol::AnnouncePayload q) {
                std::vector<bool> v2;
                for (int i = 0; i < N; ++i) { q.work_nonce = base + static_cast<std::uint64_t>(i); v2.push_back(node.verify_announce_pow(q, 4)); }
                c.note("binding.field-variations");
                if (v2 == vec) c.violation(std::string("C19:announce:acceptance-independent-of-") + what, J().kv("d", d).str());
            };
            { auto q = p; q.chunk_id[r.below(32)] ^= 1; variant("chunk-id", q); }
            { auto q = p; q.peer_id[r.below(32)] ^= 1; variant("peer", q); }
            { auto q = p; q.endpoint.back() = q.endpoint.back() == '1' ? '2' : '1'; variant("endpoint", q); }
            { auto q = p; q.manifest_uri[8] = q.manifest_uri[8] == 'A' ? 'B' : 'A'; variant("manifest", q); }
            { auto q = p; q.assigned_shards.push_back(7); variant("shard-list", q); }
            { auto q = p; q.ttl += seconds(1); variant("ttl", q); }
            const double pr = std::ldexp(1.0, -d), mean = N * pr, sd = std::sqrt(N * pr * (1 - pr));
            c.note("binding.rate-checks");
            if (std::fabs(accepted - mean) > 6 * sd + 1) c.violation("C19:announce:acceptance-rate-off", J().kv("d", d).kv("accepted", accepted).str());
        }
        auto q = p;
        c.note("solvers.announce");
        if (!node.apply_announce_pow(q)) c.violation("C19:announce:solver-failed", J().kv("d", d).str());
        else if (!node.verify_announce_pow(q, 4)) c.violation("C19:announce:solver-nonce-rejected", J().kv("d", d).str());
        else if (d > 0 && lz_ref(tu_node::announce_digest(q)) < d) c.violation("C19:announce:solver-nonce-below-target", J().kv("d", d).str());
    } else if (surface == 2) {
        // store PoW (difficulties up to 255 are capped at 24 by the code)
        security::StoreWorkInput in{};
        in.chunk_id = r.arr<32>();
        in.payload_size = r.chance(1, 3) ? 0 : r.next() >> r.below(64);
        std::string fname = r.chance(1, 3) ? std::string{} : gen::rand_string(r, 1 + r.below(40));
        in.filename_hint = fname;
        const std::uint64_t base = r.next();
        const int N = 512;
        std::vector<bool> vec;
        std::uint64_t accepted = 0;
        for (int i = 0; i < N; ++i) {
            const auto nonce = base + static_cast<std::uint64_t>(i);
            const auto dg = tu_storeproof::digest(in, nonce);
            const bool want = d == 0 || lz_ref(dg) >= d;
            const bool got = security::store_pow_valid(in, nonce, d);
            c.note("validators.store-samples");
            if (got != want) c.violation(std::string("C19:store:validator-") + (got ? "accepts-below-target" : "rejects-valid"), J().kv("d", d).kv("lz", lz_ref(dg)).str());
            vec.push_back(got);
            accepted += got;
        }
        // cap, positive side: a nonce whose digest has exactly 24 leading zero bits (mined offline for this fixed input, the
        // digest is re-checked here) meets every difficulty from 1 to 24 and, through the cap, every difficulty above
        {
            security::StoreWorkInput fixed{};
            fixed.chunk_id.fill(0x19);
            fixed.payload_size = 4096;
            const std::string fixed_name = "c19.bin";
            fixed.filename_hint = fixed_name;
            for (const std::uint64_t mined : {91013982ull, 147070256ull}) {
                const auto dg = tu_storeproof::digest(fixed, mined);
                if (lz_ref(dg) != 24) { c.violation("harness:C19:mined-nonce-does-not-have-24-zero-bits", J().kv("lz", lz_ref(dg)).str()); break; }
                for (int dd : {1, 8, 23, 24, 25, 26, 32, 64, 200, 255}) {
                    c.note("validators.store-cap-checks-with-a-24-bit-nonce");
                    if (!security::store_pow_valid(fixed, mined, static_cast<std::uint8_t>(dd)))
                        c.violation(dd <= 24 ? "C19:store:validator-rejects-valid" : "C19:store:cap-of-24-not-applied", J().kv("difficulty", dd).kv("lz", 24).kv("nonce", mined).str());
                }
            }
        }
        // cap: difficulties above 24 behave as 24
        {
            const auto nonce = base;
            const auto dg = tu_storeproof::digest(in, nonce);
            for (int big : {25, 64, 200, 255}) {
                c.note("validators.store-cap-checks");
                if (security::store_pow_valid(in, nonce, static_cast<std::uint8_t>(big)) != (lz_ref(dg) >= 24)) c.violation("C19:store:cap-of-24-not-applied", J().kv("difficulty", big).kv("lz", lz_ref(dg)).str());
            }
        }
        if (d >= 2 && d <= 6) {
            auto variant = [&](const char* what, const security::StoreWorkInput& q) {
                std::vector<bool> v2;
                for (int i = 0; i < N; ++i) v2.push_back(security::store_pow_valid(q, base + static_cast<std::uint64_t>(i), d));
                c.note("binding.field-variations");
                if (v2 == vec) c.violation(std::string("C19:store:acceptance-independent-of-") + what, J().kv("d", d).str());
            };
            { auto q = in; q.chunk_id[r.below(32)] ^= 1; variant("chunk-id", q); }
            { auto q = in; q.payload_size ^= 1; variant("size", q); }
            { auto q = in; std::string f2 = fname + "x"; q.filename_hint = f2; variant("filename", q); }
            const double pr = std::ldexp(1.0, -d), mean = N * pr, sd = std::sqrt(N * pr * (1 - pr));
            c.note("binding.rate-checks");
            if (std::fabs(accepted - mean) > 6 * sd + 1) c.violation("C19:store:acceptance-rate-off", J().kv("d", d).kv("accepted", accepted).str());
        }
        const auto solved = security::compute_store_pow(in, d);
        c.note("solvers.store");
        if (!solved) c.violation("C19:store:solver-failed", J().kv("d", d).str());
        else if (!security::store_pow_valid(in, *solved, d)) c.violation("C19:store:solver-nonce-rejected", J().kv("d", d).str());
        else if (d > 0 && lz_ref(tu_storeproof::digest(in, *solved)) < d) c.violation("C19:store:solver-nonce-below-target", J().kv("d", d).str());
    } else {
        // bootstrap token: solver output must meet the target over SHA-256(chunk id | hash | endpoint | nonce)
        auto m = genm::basic(r, std::chrono::system_clock::now() + std::chrono::hours(1));
        protocol::DiscoveryHint h{"control", "control", "198.51.100." + std::to_string(r.below(255)) + ":" + std::to_string(1 + r.below(65000)), 0};
        const auto dd = static_cast<std::uint8_t>(r.chance(1, 8) ? 0 : 1 + r.below(12));
        const auto n = bootstrap::solve_token_challenge(m, h, dd);
        c.note("solvers.token");
        if (!n) c.violation("C19:token:solver-failed", J().kv("d", dd).str());
        else if (dd > 0) {
            const auto dg = token_digest(m, h.endpoint, *n);
            if (lz_ref(dg) < dd) c.violation("C19:token:solver-nonce-below-target", J().kv("d", dd).kv("lz", lz_ref(dg)).kv("nonce", *n).str());
            if (!bootstrap::digest_meets_difficulty(dg, dd)) c.violation("C19:token:solver-nonce-rejected-by-validator", J().kv("d", dd).str());
            // binding: the nonce is for this chunk id / hash / endpoint
            auto m2 = m; m2.chunk_id[0] ^= 1;
            auto m3 = m; m3.chunk_hash[0] ^= 1;
            int still = 0;
            still += lz_ref(token_digest(m2, h.endpoint, *n)) >= dd;
            still += lz_ref(token_digest(m3, h.endpoint, *n)) >= dd;
            still += lz_ref(token_digest(m, h.endpoint + "0", *n)) >= dd;
            c.note("binding.field-variations", 3);
            if (still == 3 && dd >= 8) c.violation("C19:token:nonce-valid-for-every-field-variation", J().kv("d", dd).str());
            // smallest attempts below n must not meet the target (solver searches upward from 0)
            for (std::uint64_t k = 0; k < std::min<std::uint64_t>(*n, 64); ++k) {
                c.note("validators.token-samples");
                if (bootstrap::digest_meets_difficulty(token_digest(m, h.endpoint, k), dd) != (lz_ref(token_digest(m, h.endpoint, k)) >= dd)) c.violation("C19:token:validator-disagrees", J().kv("d", dd).str());
            }
        }
        sig = hx::mix(sig, dd);
    }
    c.sig(hx::mix(sig, c.cur_case % 256));
    if (c.cur_case % 397 == 1) c.sample(J().kv("surface", surface).kv("difficulty", d).str());
}
HX_PROPERTY("C19", c19_case);

// ------------------------------------------------------------------------------------ C20 (logic level)
void c20_case(Ctx& c, Rng& r) {
    Config cfg = base_config(r);
    static const std::int64_t cds[] = {0, 1, 5, 60};
    cfg.handshake_cooldown = seconds(cds[r.below(4)]);
    const auto d = static_cast<std::uint8_t>(r.chance(1, 4) ? 0 : 2 + r.below(7));
    cfg.handshake_pow_difficulty = d;
    const PeerId self = r.arr<32>();
    Node node(self, cfg);
    struct Claimed { PeerId id; std::uint32_t scalar, pub; std::uint64_t good_nonce; };
    std::vector<Claimed> peers;
    const auto np = 1 + r.below(2);
    for (std::uint64_t i = 0; i < np; ++i) {
        Claimed p{};
        p.id = r.arr<32>();
        p.scalar = static_cast<std::uint32_t>(r.range(2, network::KeyExchange::kPrime - 2));
        p.pub = network::KeyExchange::compute_public(p.scalar);
        const auto w = tu_cli::compute_transport_pow(p.id, self, p.pub, d);
        if (!w) return;
        p.good_nonce = *w;
        peers.push_back(p);
    }
    const auto nsteps = 3 + r.below(10);
    std::uint64_t sig = hx::mix(d, cfg.handshake_cooldown.count());
    for (std::uint64_t s = 0; s < nsteps; ++s) {
        auto& p = peers[r.below(peers.size())];
        protocol::TransportHandshakePayload hp{};
        hp.requested_version = static_cast<std::uint8_t>(r.below(6));
        const auto kind = r.below(7);
        const char* kname = "valid";
        hp.public_identity = p.pub;
        hp.work_nonce = p.good_nonce;
        if (kind == 1) { static const std::uint32_t bad[] = {0u, 1u, network::KeyExchange::kPrime, network::KeyExchange::kPrime + 1u, 0xffffffffu}; hp.public_identity = bad[r.below(5)]; kname = "invalid-key"; }
        else if (kind == 2) { hp.work_nonce = p.good_nonce + 1 + r.below(1000); kname = "other-nonce"; }
        else if (kind == 3) { hp.public_identity = network::KeyExchange::compute_public(p.scalar + 1 + static_cast<std::uint32_t>(r.below(1000))); kname = "different-key-same-peer"; }
        else if (kind == 4) { hp.public_identity = network::KeyExchange::compute_public(static_cast<std::uint32_t>(r.range(2, 1000000))); const auto w = tu_cli::compute_transport_pow(p.id, self, hp.public_identity, d); if (w) hp.work_nonce = *w; kname = "different-key-with-its-own-valid-pow"; }
        else if (kind == 6) {
            // a key outside (1, p) whose proof of work is genuinely solved for that key: the key range is the only thing wrong.
            // Values congruent to a valid key modulo p (key + p) are the interesting ones: they would even derive the same secret.
            constexpr std::uint32_t P = network::KeyExchange::kPrime;
            const auto which = r.below(5);
            std::uint32_t bad;
            if (which == 0) bad = p.pub + P;                                                   // alias of the peer's real key
            else if (which == 1) bad = static_cast<std::uint32_t>(r.range(2, P - 1)) + P;      // alias of some valid key
            else if (which == 2) bad = static_cast<std::uint32_t>(r.range(P, 0xffffffffll));   // anything at or above p
            else { static const std::uint32_t edge[] = {0u, 1u, P, P + 1u, P + 2u, 0x80000001u, 0xfffffffdu, 0xfffffffeu, 0xffffffffu}; bad = edge[r.below(9)]; }
            hp.public_identity = bad;
            const auto w = tu_cli::compute_transport_pow(p.id, self, hp.public_identity, d);
            if (w) hp.work_nonce = *w;
            kname = "invalid-key-with-its-own-valid-pow";
        }
        const bool key_ok = hp.public_identity > 1 && hp.public_identity < network::KeyExchange::kPrime;
        const bool pow_ok = d == 0 || lz_ref(tu_node::handshake_digest(p.id, self, hp.public_identity, hp.work_nonce)) >= d;
        const bool want = key_ok && pow_ok;
        const auto key_before = node.session_key(p.id);
        const auto rep_before = node.reputation_score(p.id);
        const auto acc = node.handle_transport_handshake(p.id, hp);
        const bool got = acc.has_value() && acc->accepted;
        const auto key_after = node.session_key(p.id);
        const auto rep_after = node.reputation_score(p.id);
        c.note(std::string("handshakes.") + kname);
        c.note(want ? "handshakes.admissible" : "handshakes.inadmissible");
        const auto desc = [&] { return J().kv("step", s).kv("kind", kname).kv("difficulty", d).kv("cooldown_s", cfg.handshake_cooldown.count()).kv("key_ok", key_ok).kv("pow_ok", pow_ok); };
        if (got && !want) c.violation(std::string("C20:handshake:accepted-without-valid-key-and-pow:") + kname, desc().str());
        if (!got && want) c.violation(std::string("C20:handshake:valid-handshake-rejected:") + kname, desc().str());
        if (!got) {
            if (key_before != key_after) c.violation("C20:rejection:changed-registered-key", desc().str());
            if (!(rep_after < rep_before) && rep_before > -100) c.violation("C20:rejection:reputation-not-lowered", desc().kv("before", rep_before).kv("after", rep_after).str());
        } else if (want) {
            // the key registered must be the one derived from the offered public key
            const auto shared = network::KeyExchange::derive_shared_secret(node.identity_scalar_, hp.public_identity);
            std::array<std::uint32_t, 2> o{node.public_identity(), hp.public_identity};
            std::sort(o.begin(), o.end());
            std::uint8_t mat[8];
            for (int i = 0; i < 2; ++i) for (int b = 0; b < 4; ++b) mat[i * 4 + b] = static_cast<std::uint8_t>(o[i] >> ((3 - b) * 8));
            const auto expect = ref::hmac_sha256(shared.bytes, std::span<const std::uint8_t>(mat, 8));
            c.note("handshakes.key-derivation-checked");
            if (!key_after || *key_after != expect || acc->session_key != expect) c.violation("C20:acceptance:session-key-not-derived-from-offered-key", desc().str());
        }
        sig = hx::mix(sig, hx::mix(kind, got));
        // spacing inside / outside the cool-down
        const auto cd = cfg.handshake_cooldown.count() * NS;
        static const int sp[] = {0, 1, 2, 3, 4};
        switch (sp[r.below(5)]) {
            case 0: break;
            case 1: vclk::advance(nanoseconds(1)); break;
            case 2: if (cd > 0) vclk::advance(nanoseconds(cd - 1)); break;
            case 3: vclk::advance(nanoseconds(cd)); break;
            default: vclk::advance(nanoseconds(cd + 1 + static_cast<std::int64_t>(r.below(10 * NS))));
        }
    }
    c.sig(sig);
    if (c.cur_case % 499 == 0) c.sample(J().kv("difficulty", d).kv("cooldown_s", cfg.handshake_cooldown.count()).kv("steps", nsteps).str());
}
HX_PROPERTY("C20", c20_case);

// ------------------------------------------------------------------------------------ shared: snapshot of announce-visible state
std::string announce_state(Node& n) {
    std::map<std::string, std::string> m;
    for (auto& [k, v] : n.manifest_cache_) m["manifest/" + k] = std::to_string(v.expires_at.time_since_epoch().count()) + "/" + std::to_string(v.shards.size()) + "/" + hx::hexs(v.chunk_hash).substr(0, 8);
    for (auto& [k, v] : n.dht_.shard_table_) m["shards/" + k] = std::to_string(v.expires_at.time_since_epoch().count());
    for (auto& [k, v] : n.dht_.table_) {
        std::string s;
        for (auto& h : v.holders) s += "|" + peer_id_to_string(h.id).substr(0, 8) + "@" + h.address + "/" + std::to_string(h.expires_at.time_since_epoch().count());
        m["locator/" + k] = s;
    }
    for (auto& [k, v] : n.pending_chunk_fetches_) m["fetch/" + k] = peer_id_to_string(v.peer_id).substr(0, 8);
    for (auto& [k, v] : n.swarm_plans_) m["plan/" + k] = std::to_string(v.assignments.size());
    std::string out;
    for (auto& [k, v] : m) out += k + "=" + v + ";";
    return out;
}

// ------------------------------------------------------------------------------------ C21
void c21_case(Ctx& c, Rng& r) {
    Config cfg = base_config(r);
    const auto d = static_cast<std::uint8_t>(r.chance(1, 3) ? 0 : 1 + r.below(6));
    cfg.announce_pow_difficulty = d;
    static const std::int64_t iv[] = {0, -5, 1, 2, 5, 15, 60};
    static const std::int64_t wn[] = {0, -1, 1, 10, 30, 120, 3600, 7200};
    cfg.announce_min_interval = seconds(iv[r.below(7)]);
    cfg.announce_burst_window = seconds(wn[r.below(8)]);
    cfg.announce_burst_limit = r.chance(1, 5) ? 0 : 1 + r.below(5);
    cfg.min_manifest_ttl = seconds(5);
    cfg.max_manifest_ttl = seconds(86400);
    fx::NodeFx f(fx::peer_id_n(1, 0x91), cfg);
    const auto& eff = f.node->config();
    const std::int64_t min_iv = eff.announce_min_interval.count() * NS;
    const std::int64_t window = eff.announce_burst_window.count() * NS;
    const std::size_t burst = eff.announce_burst_limit;
    const unsigned npeers = 1 + static_cast<unsigned>(r.below(3));
    for (unsigned i = 0; i < npeers; ++i) f.add_peer(fx::peer_id_n(10 + i), r);
    Config dcfg = base_config(r);
    dcfg.max_manifest_ttl = seconds(86400);
    Node donor(fx::peer_id_n(9, 0x92), dcfg);

    struct PeerHist {
        std::vector<std::int64_t> changed_at;       // times of state-changing announces
        std::vector<std::int64_t> rejected_at;      // times of announces that did not change state (harness view)
        std::vector<std::int64_t> accepted_at;
        std::vector<std::int64_t> all_at;
    };
    std::vector<PeerHist> hist(npeers);
    const auto nann = 6 + r.below(30);
    unsigned next_chunk = 0;
    std::uint64_t sig = hx::mix(d, hx::mix(static_cast<std::uint64_t>(min_iv / NS), hx::mix(static_cast<std::uint64_t>(window / NS), burst)));
    for (std::uint64_t a = 0; a < nann; ++a) {
        const unsigned pi = static_cast<unsigned>(r.below(npeers));
        auto& peer = *f.peers[pi];
        auto& h = hist[pi];
        const auto now = fx::steady_ns();
        // build the announce
        const auto id = fx::chunk_id_n(next_chunk++);
        auto manifest = donor.store_chunk(id, r.bytes(12), seconds(3600));
        protocol::AnnouncePayload ap{};
        ap.chunk_id = id;
        ap.peer_id = peer.id;
        ap.endpoint = "203.0.113." + std::to_string(1 + pi) + ":" + std::to_string(4000 + a);
        ap.ttl = seconds(60 + r.below(1000));
        std::uint8_t version = 4;
        bool admissible = true;
        std::string flaw = "none";
        const auto fk = r.chance(1, 2) ? 0 : 1 + r.below(9);
        if (fk == 1) { ap.peer_id = fx::peer_id_n(200); flaw = "names-another-announcer"; admissible = false; }
        if (fk == 2) { manifest.expires_at = std::chrono::system_clock::now() - seconds(1 + r.below(100)); flaw = "expired-manifest"; admissible = false; }
        if (fk == 3) { manifest.expires_at = std::chrono::system_clock::now() + seconds(r.below(5)); flaw = "remaining-below-min-ttl"; admissible = false; }
        if (fk == 4) { manifest.chunk_id[5] ^= 1; flaw = "manifest-for-another-chunk"; admissible = false; }
        if (fk == 5) { manifest.threshold = static_cast<std::uint8_t>(manifest.shards.size() + 1); flaw = "threshold-not-met"; admissible = false; }
        if (fk == 6) {
            flaw = "assigned-shard-missing";
            admissible = false;
            if (r.chance(1, 2) || manifest.shards.size() <= manifest.threshold) ap.assigned_shards = {manifest.shards[0].index, 77};
            else {
                // the manifest carries a strict subset of the split (still at or above its threshold); the announce assigns an
                // index that lies inside 1..total_shares but is not among the shares carried
                const auto k = r.below(manifest.shards.size());
                const auto gone = manifest.shards[k].index;
                manifest.shards.erase(manifest.shards.begin() + static_cast<std::ptrdiff_t>(k));
                ap.assigned_shards = {gone};
                if (r.chance(1, 2)) ap.assigned_shards.push_back(manifest.shards[0].index);
                c.note("announces.assigned-index-in-range-but-not-carried");
            }
        }
        if (fk == 9) { ap.assigned_shards = {manifest.shards[0].index}; }
        ap.manifest_uri = protocol::encode_manifest(manifest);
        if (fk == 7) { ap.manifest_uri = r.chance(1, 2) ? std::string{} : "eph://!!!notbase64"; flaw = "undecodable-manifest"; admissible = false; }
        // proof of work: solve, then possibly spoil
        Node solver(peer.id, cfg);
        solver.apply_announce_pow(ap);
        if (fk == 8 && d > 0) {
            if (r.chance(1, 2)) { version = static_cast<std::uint8_t>(1 + r.below(2)); flaw = "version-below-3-with-pow"; admissible = false; }
            else { ap.work_nonce += 1 + r.below(50); flaw = "spoiled-nonce"; }
        }
        const bool pow_ok = d == 0 || (version >= 3 && lz_ref(tu_node::announce_digest(ap)) >= d);
        if (!pow_ok) admissible = false;
        protocol::Message m{};
        m.version = version;
        m.type = protocol::MessageType::Announce;
        m.payload = ap;
        const auto before = announce_state(*f.node);
        f.deliver(peer, m);
        f.drain(peer);
        const bool changed = announce_state(*f.node) != before;
        c.note("announces.delivered");
        c.note(std::string("announces.flaw.") + flaw);
        const auto desc = [&] { return J().kv("announce", a).kv("peer", pi).kv("flaw", flaw).kv("pow_ok", pow_ok).kv("difficulty", d).kv("min_interval_s", min_iv / NS).kv("window_s", window / NS).kv("burst", burst); };
        // three-valued lock-out model
        auto recent = [&](const std::vector<std::int64_t>& v, std::int64_t span) { return std::count_if(v.begin(), v.end(), [&](std::int64_t t) { return now - t <= span && now >= t; }); };
        bool certainly_locked = false;
        {
            // three rejections inside 120 s, the third at most 180 s ago, with no accepted announce since the first of them
            const auto& rj = h.rejected_at;
            for (std::size_t i = 0; i + 2 < rj.size() && !certainly_locked; ++i) {
                const auto t0 = rj[i], t2 = rj[i + 2];
                if (t2 - t0 <= 119 * NS && now - t2 < 179 * NS && now > t2) {
                    const bool accepted_between = std::any_of(h.accepted_at.begin(), h.accepted_at.end(), [&](std::int64_t t) { return t >= t0 - 300 * NS; });
                    // earlier rejections could have started an earlier lock-out window that swallowed these; require a quiet 300 s before t0
                    const bool quiet_before = std::none_of(rj.begin(), rj.begin() + static_cast<std::ptrdiff_t>(i), [&](std::int64_t t) { return t0 - t <= 300 * NS; });
                    if (!accepted_between && quiet_before) certainly_locked = true;
                }
            }
        }
        const bool certainly_unlocked = recent(h.rejected_at, 300 * NS) == 0;
        if (changed) {
            c.note("announces.state-changing");
            if (!admissible) c.violation("C21:admission:inadmissible-announce-changed-state:" + flaw, desc().str());
            if (certainly_locked) c.violation("C21:lockout:locked-out-peer-changed-state", desc().str());
            // throttle over the observed set
            if (!h.changed_at.empty() && min_iv > 0 && now - h.changed_at.back() < min_iv) c.violation("C21:throttle:closer-than-min-interval", desc().kv("gap_ns", now - h.changed_at.back()).str());
            if (burst > 0 && window > 0) {
                const auto in_window = std::count_if(h.changed_at.begin(), h.changed_at.end(), [&](std::int64_t t) { return now - t < window; });
                if (static_cast<std::size_t>(in_window) + 1 > burst) c.violation("C21:throttle:more-than-burst-in-window", desc().kv("in_window", in_window + 1).str());
            }
            h.changed_at.push_back(now);
            h.accepted_at.push_back(now);
        } else {
            h.rejected_at.push_back(now);
            // non-vacuity: admissible, well spaced, certainly unlocked -> must get through
            // (rejected announces may consume throttle slots too, so "well spaced" means: nothing at all from this peer
            //  inside the window / interval before this one)
            const std::int64_t quiet = std::max<std::int64_t>(std::max(min_iv, window), NS) + NS;
            const bool spaced = std::none_of(h.all_at.begin(), h.all_at.end(), [&](std::int64_t t) { return now - t <= quiet; });
            if (spaced) c.note("announces.non-vacuity-candidates");
            if (admissible && certainly_unlocked && spaced) {
                c.violation("C21:admission:admissible-announce-refused", desc().str());
            }
        }
        h.all_at.push_back(now);
        if (certainly_locked) c.note("announces.while-certainly-locked");
        sig = hx::mix(sig, hx::mix(fk, changed));
        // timing: edges of interval / window / lock-out
        const auto tk = r.below(10);
        std::int64_t adv = 0;
        if (tk == 0) adv = 0;
        else if (tk == 1) adv = min_iv - 1;
        else if (tk == 2) adv = min_iv;
        else if (tk == 3) adv = min_iv + 1;
        else if (tk == 4) adv = window;
        else if (tk == 5) adv = 180 * NS + static_cast<std::int64_t>(r.range(-2, 2));
        else if (tk == 6) adv = 301 * NS;
        else adv = static_cast<std::int64_t>(r.below(static_cast<std::uint64_t>(std::max<std::int64_t>(2 * min_iv, 20 * NS))));
        if (adv > 0) vclk::advance(nanoseconds(adv));
    }
    c.sig(sig);
    if (c.cur_case % 199 == 0) c.sample(J().kv("difficulty", d).kv("min_interval_s", min_iv / NS).kv("window_s", window / NS).kv("burst", burst).kv("announces", nann).str());
}
HX_PROPERTY("C21", c21_case);

// ------------------------------------------------------------------------------------ C22
void c22_case(Ctx& c, Rng& r) {
    Config cfg = base_config(r);
    static const std::uint16_t cv[] = {0, 1, 2, 3, 5, 8, 16, 255, 256, 65535};
    cfg.swarm_target_replicas = r.chance(1, 2) ? cv[r.below(10)] : static_cast<std::uint16_t>(r.below(12));
    cfg.swarm_min_providers = r.chance(1, 2) ? cv[r.below(10)] : static_cast<std::uint16_t>(r.below(12));
    cfg.swarm_candidate_sample = r.chance(1, 2) ? cv[r.below(10)] : static_cast<std::uint16_t>(r.below(50));
    const PeerId self = r.arr<32>();
    KademliaTable table(self, cfg);
    SwarmCoordinator coord(cfg);
    const auto ncand = r.below(41);
    const auto now = std::chrono::steady_clock::now();
    SwarmPeerLoadMap loads;
    for (std::uint64_t i = 0; i < ncand; ++i) {
        PeerContact pc{};
        pc.id = r.arr<32>();
        pc.address = "198.51.100." + std::to_string(i) + ":" + std::to_string(4000 + i);
        static const std::int64_t ex[] = {-100, -1, 0, 1, 2, 100, 900, 901, 100000};
        pc.expires_at = now + nanoseconds((r.chance(1, 2) ? ex[r.below(9)] : static_cast<std::int64_t>(r.below(2000))) * NS + static_cast<std::int64_t>(r.below(3)) - 1);
        table.register_peer(pc);
        if (r.chance(1, 2)) {
            SwarmPeerLoad l{};
            l.active_uploads = r.below(5); l.pending_uploads = r.below(5); l.active_downloads = r.below(5); l.pending_downloads = r.below(5);
            l.seed_roles = r.below(5); l.leecher_roles = r.below(5); l.reputation = static_cast<int>(r.range(-100, 100)); l.has_reputation = r.chance(1, 2); l.is_choked = r.chance(1, 4);
            loads[peer_id_to_string(pc.id)] = l;
        }
    }
    static const std::size_t sc[] = {0, 1, 2, 3, 5, 16, 17, 100, 254, 255};
    const std::size_t nshards = r.chance(1, 2) ? sc[r.below(10)] : r.below(40);
    auto m = genm::basic(r, std::chrono::system_clock::now() + std::chrono::hours(1), 1, 1);
    m.shards.clear();
    for (std::size_t i = 0; i < nshards; ++i) { protocol::KeyShard s{}; s.index = static_cast<std::uint8_t>(r.chance(1, 8) ? r.below(256) : i + 1); s.value = r.arr<32>(); m.shards.push_back(s); }
    m.threshold = static_cast<std::uint8_t>(r.chance(1, 3) ? r.below(256) : r.below(nshards + 2));
    m.total_shares = static_cast<std::uint8_t>(nshards);
    // candidates as the coordinator will see them (independent recomputation of "live candidates returned for the sample size")
    PeerId target{};
    std::copy(m.chunk_id.begin(), m.chunk_id.end(), target.begin());
    std::vector<std::pair<std::array<std::uint8_t, 32>, PeerId>> live;
    const auto tnow = fx::steady_ns();
    for (auto& b : table.buckets_) for (auto& pc : b) if (pc.expires_at.time_since_epoch().count() > tnow && pc.id != self) {
        std::array<std::uint8_t, 32> dist{};
        for (int i = 0; i < 32; ++i) dist[i] = pc.id[i] ^ target[i];
        live.emplace_back(dist, pc.id);
    }
    std::sort(live.begin(), live.end());
    const std::size_t sample = std::max<std::size_t>(cfg.swarm_candidate_sample, 1);
    const std::size_t cnum = std::min(sample, live.size());
    std::set<PeerId> eligible;
    for (std::size_t i = 0; i < cnum; ++i) eligible.insert(live[i].second);

    const auto plan = coord.compute_plan(m.chunk_id, m, table, self, loads);
    c.note("plans.computed");
    const std::size_t s = nshards, t = m.threshold;
    const std::size_t want_providers = std::min({cnum, s, std::max<std::size_t>(cfg.swarm_target_replicas, std::min({std::max<std::size_t>(cfg.swarm_min_providers, t), cnum, s}))});
    const auto desc = [&] { return J().kv("shards", s).kv("threshold", t).kv("candidates", cnum).kv("target", cfg.swarm_target_replicas).kv("min_providers", cfg.swarm_min_providers).kv("sample", cfg.swarm_candidate_sample).kv("assignments", plan.assignments.size()); };
    if (plan.assignments.size() != want_providers) c.violation("C22:plan:wrong-provider-count", desc().kv("expected", want_providers).str());
    std::multiset<int> assigned, wanted;
    for (auto& sh : m.shards) wanted.insert(sh.index);
    std::set<PeerId> seen;
    std::size_t mincnt = SIZE_MAX, maxcnt = 0;
    for (auto& a : plan.assignments) {
        if (!seen.insert(a.peer.id).second) c.violation("C22:plan:provider-assigned-twice", desc().str());
        if (a.peer.id == self) c.violation("C22:plan:self-is-a-provider", desc().str());
        if (!eligible.count(a.peer.id)) c.violation(a.peer.expires_at.time_since_epoch().count() <= tnow ? "C22:plan:expired-provider" : "C22:plan:provider-not-among-candidates", desc().str());
        if (a.shard_indices.empty()) c.violation("C22:plan:provider-without-shard", desc().str());
        mincnt = std::min(mincnt, a.shard_indices.size());
        maxcnt = std::max(maxcnt, a.shard_indices.size());
        for (auto si : a.shard_indices) assigned.insert(si);
    }
    if (!plan.assignments.empty()) {
        c.note("plans.nonempty");
        if (assigned != wanted) c.violation("C22:plan:shards-not-assigned-exactly-once", desc().kv("assigned", assigned.size()).str());
        if (maxcnt - mincnt > 1) c.violation("C22:plan:uneven-shard-counts", desc().kv("min", mincnt).kv("max", maxcnt).str());
    }
    c.sig(hx::mix(hx::mix(s, t), hx::mix(cnum, hx::mix(cfg.swarm_target_replicas, cfg.swarm_min_providers))));
    if (c.cur_case % 499 == 0) c.sample(desc().str());
}
HX_PROPERTY("C22", c22_case);

// ------------------------------------------------------------------------------------ C23
void c23_case(Ctx& c, Rng& r) {
    Config cfg = base_config(r);
    cfg.upload_max_parallel_transfers = static_cast<std::uint16_t>(r.below(4));
    cfg.upload_max_transfers_per_peer = static_cast<std::uint16_t>(r.below(4));
    cfg.upload_transfer_timeout = seconds(5 + r.below(30));
    cfg.upload_reconsider_interval = seconds(r.below(4));
    cfg.min_manifest_ttl = seconds(1);
    cfg.max_manifest_ttl = seconds(86400);
    cfg.cleanup_interval = seconds(100000);
    const std::size_t maxpar = cfg.upload_max_parallel_transfers, maxpp = cfg.upload_max_transfers_per_peer;
    const std::int64_t timeout = cfg.upload_transfer_timeout.count() * NS;
    fx::NodeFx f(fx::peer_id_n(1, 0xA1), cfg);
    const unsigned npeers = 1 + static_cast<unsigned>(r.below(4));
    for (unsigned i = 0; i < npeers; ++i) f.add_peer(fx::peer_id_n(10 + i), r);
    const unsigned nchunks = 1 + static_cast<unsigned>(r.below(4));
    for (unsigned i = 0; i < nchunks; ++i) f.node->store_chunk(fx::chunk_id_n(i), r.bytes(16 + r.below(200)), seconds(80000));
    // model: (peer, chunk) -> start time
    std::map<std::pair<unsigned, unsigned>, std::int64_t> inflight;
    const auto nsteps = 8 + r.below(50);
    std::uint64_t sig = hx::mix(maxpar, maxpp);
    auto chunk_index = [&](const ChunkId& id) -> int { for (unsigned i = 0; i < nchunks + 2; ++i) if (fx::chunk_id_n(i) == id) return static_cast<int>(i); return -1; };
    for (std::uint64_t s = 0; s < nsteps; ++s) {
        const auto k = r.below(10);
        const unsigned pi = static_cast<unsigned>(r.below(npeers));
        auto& peer = *f.peers[pi];
        bool ran_scheduler = false;
        int expect_negative_for = -1;
        std::string what;
        if (k <= 4) {
            // REQUEST, sometimes for a chunk the node cannot serve, often a repeat of an in-flight one
            unsigned ci = static_cast<unsigned>(r.below(nchunks));
            if (r.chance(1, 6)) ci = nchunks + static_cast<unsigned>(r.below(2));   // unknown chunk
            if (r.chance(1, 3) && !inflight.empty()) { auto it = inflight.begin(); std::advance(it, static_cast<std::ptrdiff_t>(r.below(inflight.size()))); if (it->first.first == pi) ci = it->first.second; }
            protocol::Message m{};
            m.type = protocol::MessageType::Request;
            m.payload = protocol::RequestPayload{fx::chunk_id_n(ci), peer.id};
            if (inflight.count({pi, ci})) c.note("uploads.repeated-request-while-in-flight");
            f.deliver(peer, m);
            ran_scheduler = ci < nchunks;   // an unservable request is answered at once, without a scheduling (and pruning) pass
            if (ci >= nchunks) expect_negative_for = static_cast<int>(ci);
            what = "request";
            c.note("uploads.requests");
        } else if (k <= 6) {
            // ACK (positive or negative) for an in-flight upload of this peer, or a stray one
            unsigned ci = static_cast<unsigned>(r.below(nchunks));
            for (auto& [key, _] : inflight) if (key.first == pi && r.chance(2, 3)) { ci = key.second; break; }
            protocol::Message m{};
            m.type = protocol::MessageType::Acknowledge;
            m.payload = protocol::AcknowledgePayload{fx::chunk_id_n(ci), peer.id, r.chance(3, 4)};
            inflight.erase({pi, ci});   // the transfer ends with the peer's ACK, before anything the node sends in response
            f.deliver(peer, m);
            ran_scheduler = true;
            what = "ack";
            c.note("uploads.acks");
        } else if (k == 7) {
            f.node->tick();
            ran_scheduler = true;
            what = "tick";
        } else {
            const auto kk = r.below(4);
            std::int64_t adv = kk == 0 ? timeout - 1 : (kk == 1 ? timeout : (kk == 2 ? timeout + 1 : static_cast<std::int64_t>(r.below(static_cast<std::uint64_t>(2 * timeout)))));
            vclk::advance(nanoseconds(adv));
            what = "advance";
        }
        // transfers end by timeout on the model's clock
        const auto now = fx::steady_ns();
        for (auto it = inflight.begin(); it != inflight.end();) { if (now - it->second >= timeout) { it = inflight.erase(it); c.note("uploads.timeouts"); } else ++it; }
        // frames
        int negative_acks = 0;
        for (unsigned q = 0; q < npeers; ++q) {
            for (auto& fr : f.drain(*f.peers[q])) {
                if (!fr.message) { c.violation("harness:C23:undecodable-frame", "{}"); continue; }
                if (fr.message->type == protocol::MessageType::Chunk) {
                    const auto& cp = std::get<protocol::ChunkPayload>(fr.message->payload);
                    const int ci = chunk_index(cp.chunk_id);
                    c.note("uploads.chunk-frames");
                    if (ci >= 0) inflight[{q, static_cast<unsigned>(ci)}] = now;   // a repeated CHUNK for an in-flight (peer, chunk) is the same upload, restarted
                } else if (fr.message->type == protocol::MessageType::Acknowledge) {
                    const auto& ap = std::get<protocol::AcknowledgePayload>(fr.message->payload);
                    if (!ap.accepted && q == pi && expect_negative_for >= 0 && chunk_index(ap.chunk_id) == expect_negative_for) ++negative_acks;
                }
            }
        }
        if (std::getenv("HX_DEBUG")) {
            std::string inf;
            for (auto& [key, st] : inflight) inf += "(" + std::to_string(key.first) + "," + std::to_string(key.second) + ")";
            std::fprintf(stderr, "step %llu op=%s peer=%u model=%s node_active=%zu node_pp=", (unsigned long long)s, what.c_str(), pi, inf.c_str(), f.node->active_uploads_.size());
            for (auto& [k2, v2] : f.node->active_uploads_per_peer_) std::fprintf(stderr, "%s:%zu ", k2.substr(0, 4).c_str(), v2);
            std::fprintf(stderr, " pending=%zu t=%lld\n", f.node->pending_uploads_.size(), (long long)(now / 1000000));
        }
        const auto desc = [&] { return J().kv("step", s).kv("op", what).kv("max_parallel", maxpar).kv("max_per_peer", maxpp).kv("peers", npeers); };
        if (expect_negative_for >= 0) {
            c.note("uploads.unservable-requests");
            if (negative_acks != 1) c.violation("C23:unservable-request:not-exactly-one-negative-ack", desc().kv("negative_acks", negative_acks).str());
        }
        // limits
        c.note("uploads.limit-checks");
        if (maxpar > 0 && inflight.size() > maxpar) c.violation("C23:limit:more-than-max-parallel-uploads", desc().kv("in_flight", inflight.size()).str());
        std::map<unsigned, std::size_t> perpeer;
        for (auto& [key, _] : inflight) perpeer[key.first]++;
        if (maxpp > 0) for (auto& [q, n] : perpeer) if (n > maxpp) c.violation("C23:limit:more-than-max-uploads-per-peer", desc().kv("peer", q).kv("in_flight", n).str());
        c.note_max("uploads.max-in-flight-observed", inflight.size());
        // slots: after the node has run its scheduler (which prunes), a peer without in-flight uploads holds no slot
        if (ran_scheduler) {
            for (unsigned q = 0; q < npeers; ++q) {
                if (perpeer.count(q)) continue;
                const auto it = f.node->active_uploads_per_peer_.find(peer_id_to_string(f.peers[q]->id));
                c.note("uploads.slot-release-checks");
                if (it != f.node->active_uploads_per_peer_.end() && it->second != 0)
                    c.violation("C23:slots:peer-without-uploads-still-holds-slots", desc().kv("peer", q).kv("slots", it->second).str());
            }
            if (inflight.empty() && !f.node->active_uploads_.empty()) c.violation("C23:slots:node-counts-uploads-nobody-has", desc().kv("node_active", f.node->active_uploads_.size()).str());
        }
        sig = hx::mix(sig, hx::mix(k, inflight.size()));
    }
    c.sig(sig);
    if (c.cur_case % 199 == 0) c.sample(J().kv("max_parallel", maxpar).kv("max_per_peer", maxpp).kv("peers", npeers).kv("chunks", nchunks).kv("steps", nsteps).str());
}
HX_PROPERTY("C23", c23_case);

// ------------------------------------------------------------------------------------ C24
void c24_case(Ctx& c, Rng& r) {
    Config cfg = base_config(r);
    cfg.fetch_max_parallel_requests = static_cast<std::uint16_t>(r.below(4));
    cfg.fetch_retry_initial_backoff = seconds(1 + r.below(5));
    cfg.fetch_retry_max_backoff = seconds(cfg.fetch_retry_initial_backoff.count() + r.below(120));
    cfg.fetch_retry_success_interval = seconds(1 + r.below(20));
    cfg.fetch_retry_attempt_limit = static_cast<std::uint8_t>(r.chance(1, 5) ? 0 : 1 + r.below(12));
    // one case in eight is a long run of failures of one fetch: no or a high attempt limit, unreachable providers, a long-lived
    // manifest, and the clock stepped from one retry time to the next, so that the back-off is followed over 40..110 attempts
    const bool long_run = r.chance(1, 8);
    if (long_run) cfg.fetch_retry_attempt_limit = static_cast<std::uint8_t>(r.chance(1, 2) ? 0 : 33 + r.below(223));
    cfg.fetch_availability_refresh = seconds(r.below(20));
    cfg.min_manifest_ttl = seconds(1);
    cfg.max_manifest_ttl = seconds(86400);
    cfg.announce_min_interval = seconds(1);
    cfg.announce_burst_limit = 100000;
    cfg.announce_burst_window = seconds(1);
    cfg.cleanup_interval = seconds(1000000);
    const std::size_t limit = cfg.fetch_max_parallel_requests;
    const std::int64_t b0 = cfg.fetch_retry_initial_backoff.count(), bmax = cfg.fetch_retry_max_backoff.count();
    const std::size_t alimit = cfg.fetch_retry_attempt_limit;
    fx::NodeFx f(fx::peer_id_n(1, 0xB1), cfg);
    const unsigned npeers = 2 + static_cast<unsigned>(r.below(3));
    std::vector<bool> has_session;
    for (unsigned i = 0; i < npeers; ++i) { const bool s = !long_run && r.chance(2, 3); has_session.push_back(s); f.add_peer(fx::peer_id_n(10 + i), r, s); }
    Config dcfg = base_config(r);
    dcfg.max_manifest_ttl = seconds(86400);
    Node donor(fx::peer_id_n(9, 0xB2), dcfg);
    struct Known { ChunkId id; std::string uri; std::vector<std::uint8_t> cipher; std::uint8_t shard; std::int64_t expires_sys; };
    std::vector<Known> chunks;
    const unsigned nchunks = long_run ? 1 : 1 + static_cast<unsigned>(r.below(5));
    for (unsigned i = 0; i < nchunks; ++i) {
        Known k{};
        k.id = fx::chunk_id_n(i);
        auto m = donor.store_chunk(k.id, r.bytes(24), seconds(3600));
        const std::int64_t life = long_run ? 80000 : (r.chance(1, 3) ? 5 + static_cast<std::int64_t>(r.below(60)) : 3000);
        m.expires_at = std::chrono::system_clock::time_point{seconds(fx::system_ns() / NS + life)};
        k.expires_sys = m.expires_at.time_since_epoch().count();
        k.uri = protocol::encode_manifest(m);
        k.cipher = donor.chunk_store_.chunks_.at(chunk_id_to_string(k.id)).data;
        k.shard = m.shards[0].index;
        chunks.push_back(std::move(k));
    }
    struct Track { std::size_t attempts{0}; };
    std::map<std::string, Track> track;
    const auto nsteps = long_run ? 80 + r.below(140) : 8 + r.below(60);
    std::uint64_t sig = hx::mix(limit, hx::mix(alimit, hx::mix(static_cast<std::uint64_t>(b0), static_cast<std::uint64_t>(bmax))));
    for (std::uint64_t s = 0; s < nsteps; ++s) {
        auto k = r.below(10);
        if (long_run && !r.chance(1, 40)) k = s == 0 ? 0 : (s % 2 == 1 ? 9 : 5);
        std::string what;
        // remember attempts before the step to detect failed dispatches
        std::map<std::string, std::size_t> attempts_before;
        for (auto& [key, st] : f.node->pending_chunk_fetches_) attempts_before[key] = st.attempts;
        bool scheduling_pass = false;
        if (k <= 3) {
            // announce with an assigned shard (also re-announces of in-flight fetches, same or other peer)
            const unsigned pi = static_cast<unsigned>(r.below(npeers));
            auto& kc = chunks[r.below(chunks.size())];
            protocol::Message m{};
            m.type = protocol::MessageType::Announce;
            protocol::AnnouncePayload ap{};
            ap.chunk_id = kc.id; ap.peer_id = f.peers[pi]->id; ap.endpoint = ""; ap.ttl = seconds(600);
            ap.manifest_uri = kc.uri; ap.assigned_shards = {kc.shard};
            m.payload = ap;
            const auto key = chunk_id_to_string(kc.id);
            const auto pit = f.node->pending_chunk_fetches_.find(key);
            if (pit != f.node->pending_chunk_fetches_.end() && pit->second.in_flight) c.note("fetch.reannounce-of-in-flight-fetch");
            f.deliver(*f.peers[pi], m);
            vclk::advance(nanoseconds(NS + 1));
            scheduling_pass = true;
            what = "announce";
            c.note("fetch.announces");
        } else if (k == 4) {
            // the chunk arrives
            auto& kc = chunks[r.below(chunks.size())];
            if (f.node->receive_chunk(kc.uri, kc.cipher).has_value()) c.note("fetch.chunk-arrivals");
            what = "arrival";
        } else if (k <= 7) {
            f.node->tick();
            scheduling_pass = true;
            what = "tick";
            c.note("fetch.ticks");
        } else if (k == 8 && r.chance(1, 3)) {
            // a provider that was reachable goes away: sends that succeeded so far start to fail
            std::vector<unsigned> up;
            for (unsigned q = 0; q < npeers; ++q) if (has_session[q] && f.peers[q]->fd >= 0) up.push_back(q);
            what = "advance";
            if (!up.empty()) {
                const unsigned q = up[r.below(up.size())];
                f.drain(*f.peers[q]);
                ::close(f.peers[q]->fd);
                f.peers[q]->fd = -1;
                for (int w = 0; w < 4000 && f.node->sessions_.is_connected(f.peers[q]->id); ++w) ::usleep(500);
                if (!f.node->sessions_.is_connected(f.peers[q]->id)) { has_session[q] = false; c.note("fetch.providers-gone-away"); }
            }
        } else {
            std::vector<std::int64_t> ds;
            for (auto& [_, st] : f.node->pending_chunk_fetches_) if (st.next_attempt != std::chrono::steady_clock::time_point::max()) ds.push_back(st.next_attempt.time_since_epoch().count());
            const auto kk = long_run && r.chance(5, 6) ? 1 : r.below(5);
            const auto now = fx::steady_ns();
            std::int64_t target = now + static_cast<std::int64_t>(r.below(30 * NS));
            if (!ds.empty() && kk <= 2) { const auto dl = ds[r.below(ds.size())]; target = kk == 0 ? dl - 1 : (kk == 1 ? dl : dl + 1); }
            if (kk == 4) target = now + static_cast<std::int64_t>(r.below(400 * NS));
            if (target > now) vclk::advance(nanoseconds(target - now));
            what = "advance";
        }
        // frames: REQUESTs per peer in this step
        std::map<unsigned, std::set<std::string>> requested;
        for (unsigned q = 0; q < npeers; ++q)
            for (auto& fr : f.drain(*f.peers[q]))
                if (fr.message && fr.message->type == protocol::MessageType::Request) {
                    requested[q].insert(chunk_id_to_string(std::get<protocol::RequestPayload>(fr.message->payload).chunk_id));
                    c.note("fetch.request-frames");
                }
        const auto now = fx::steady_ns();
        const auto wnow = fx::system_ns();
        const auto desc = [&] { return J().kv("step", s).kv("op", what).kv("limit", limit).kv("attempt_limit", alimit).kv("backoff", std::to_string(b0) + ".." + std::to_string(bmax)); };
        // (1) per-peer in-flight vs limit and vs the node's counters
        std::map<std::string, std::size_t> inflight_by_peer;
        std::size_t inflight_total = 0;
        for (auto& [key, st] : f.node->pending_chunk_fetches_) if (st.in_flight) { inflight_by_peer[peer_id_to_string(st.peer_id)]++; ++inflight_total; }
        c.note("fetch.limit-checks");
        c.note_max("fetch.max-in-flight-observed", inflight_total);
        if (limit > 0) for (auto& [p, n] : inflight_by_peer) if (n > limit) c.violation("C24:limit:peer-has-more-in-flight-than-limit", desc().kv("in_flight", n).str());
        for (auto& [p, n] : f.node->active_peer_requests_) {
            const auto it = inflight_by_peer.find(p);
            const std::size_t model = it == inflight_by_peer.end() ? 0 : it->second;
            if (n != model) c.violation(model == 0 ? "C24:counter:in-flight-count-not-zero-with-nothing-outstanding" : "C24:counter:in-flight-count-differs-from-outstanding-requests", desc().kv("node_count", n).kv("outstanding", model).str());
        }
        for (auto& [p, n] : inflight_by_peer) if (!f.node->active_peer_requests_.count(p)) c.violation("C24:counter:outstanding-request-not-counted", desc().kv("outstanding", n).str());
        // requests sent in this step must be reflected as in-flight fetches towards that peer
        for (auto& [q, set] : requested) {
            if (limit > 0 && set.size() > limit) c.violation("C24:limit:more-requests-sent-in-one-pass-than-limit", desc().kv("sent", set.size()).str());
        }
        // (2) back-off of failed attempts
        for (auto& [key, st] : f.node->pending_chunk_fetches_) {
            const auto before = attempts_before.count(key) ? attempts_before[key] : 0;
            if (st.attempts > before && !st.in_flight && scheduling_pass && st.next_attempt != std::chrono::steady_clock::time_point::max()) {
                // a failed dispatch happened in this pass (at pass time = now, or now - 1s-1ns for the announce step which advances afterwards)
                const std::int64_t pass_time = what == "announce" ? now - NS - 1 : now;
                const std::int64_t delay = st.next_attempt.time_since_epoch().count() - pass_time;
                const std::size_t a = st.attempts;
                // a send that failed with the attempt limit already used up must not be scheduled again (decided here from the
                // observed history: attempts grew, nothing is in flight; not from the node's own "never again" marker)
                if (alimit > 0 && a >= alimit) {
                    c.note("fetch.failed-dispatches-at-or-past-the-attempt-limit");
                    c.violation("C24:termination:fetch-rescheduled-after-attempt-limit", desc().kv("attempts", a).kv("retry_in_ns", delay).str());
                    continue;
                }
                auto expect_for = [&](std::size_t exponent) { const long double v = static_cast<long double>(b0) * std::pow(2.0L, static_cast<long double>(exponent)); return static_cast<std::int64_t>(std::min<long double>(v, static_cast<long double>(bmax))); };
                const std::int64_t e1 = expect_for(a - 1), e2 = expect_for(std::min<std::size_t>(a - 1, 8));
                c.note("fetch.backoff-delays-checked");
                c.note_max("fetch.max-consecutive-failed-attempts-followed", a);
                if (delay > bmax * NS) c.violation("C24:backoff:delay-above-maximum", desc().kv("attempt", a).kv("delay_ns", delay).str());
                else if (delay != e1 * NS && !(a - 1 >= 8 && delay == e2 * NS)) c.violation("C24:backoff:not-initial-times-power-of-two", desc().kv("attempt", a).kv("delay_ns", delay).kv("expected_s", e1).str());
            }
        }
        // (3) termination: after a scheduling pass no fetch remains whose chunk is held, whose manifest expired, or whose failed attempts reached the limit
        if (what == "tick") {
            for (auto& [key, st] : f.node->pending_chunk_fetches_) {
                c.note("fetch.termination-checks");
                const bool held = f.node->chunk_store_.chunks_.count(key) && f.node->chunk_store_.chunks_.at(key).expires_at.time_since_epoch().count() > now;
                const std::int64_t pass_wall = what == "announce" ? wnow - NS - 1 : wnow;
                const bool expired = st.manifest_expires.time_since_epoch().count() != 0 && st.manifest_expires.time_since_epoch().count() <= pass_wall;
                const bool exhausted = alimit > 0 && st.attempts >= alimit && !st.in_flight && st.next_attempt == std::chrono::steady_clock::time_point::max();
                if (held) c.violation("C24:termination:fetch-kept-although-chunk-is-held", desc().str());
                if (expired) c.violation("C24:termination:fetch-outlives-its-manifest", desc().str());
                if (exhausted) c.violation("C24:termination:fetch-kept-after-attempt-limit", desc().kv("attempts", st.attempts).str());
                if (alimit > 0 && !st.in_flight && st.attempts > alimit + 0 && !has_session[0] && false) {}
            }
        }
        // failed attempts never exceed the limit (attempts whose sends succeed are not retries of a failure)
        sig = hx::mix(sig, hx::mix(k, hx::mix(inflight_total, f.node->pending_chunk_fetches_.size())));
    }
    // bounded termination: far in the future nothing is pending
    vclk::advance_s(100000);
    f.node->tick();
    for (unsigned q = 0; q < npeers; ++q) f.drain(*f.peers[q]);
    c.note("fetch.final-termination-checks");
    if (!f.node->pending_chunk_fetches_.empty()) c.violation("C24:termination:fetch-pending-after-every-manifest-expired", J().kv("pending", f.node->pending_chunk_fetches_.size()).str());
    if (!f.node->active_peer_requests_.empty()) c.violation("C24:counter:in-flight-count-not-zero-with-nothing-outstanding", J().kv("final", true).str());
    c.sig(sig);
    if (c.cur_case % 199 == 0) c.sample(J().kv("limit", limit).kv("attempt_limit", alimit).kv("backoff", std::to_string(b0) + ".." + std::to_string(bmax)).kv("peers", npeers).kv("chunks", nchunks).kv("steps", nsteps).str());
}
HX_PROPERTY("C24", c24_case);

// ------------------------------------------------------------------------------------ C31 (node side)
bool name_is_safe(const std::string& n, std::string& why) {
    if (n.empty()) { why = "empty"; return false; }
    if (n == "." || n == "..") { why = "dot-name"; return false; }
    for (unsigned char ch : n) {
        if (ch == '/' || ch == '\\') { why = "path-separator"; return false; }
        if (ch < 0x20 || ch == 0x7f) { why = "control-character"; return false; }
        if (ch == ':' || ch == '*' || ch == '?' || ch == '"' || ch == '<' || ch == '>' || ch == '|') { why = "reserved-character"; return false; }
    }
    return true;
}
std::string hostile_name(Rng& r) {
    static const char* fixed[] = {"../../etc/passwd", "..\\..\\windows\\system32\\x", "a/b/c", "/abs/path", "C:\\x\\y", ".", "..", "...", "....", " ", "", "./", "../", "..\\", "foo/", "foo/..", "foo/.",
                                  "a\nb", "a\rb", "nul\x01l", ".\x01.", "\x01..", "..\x7f", ".\x7f.", "x:y", "con", "a*b?c", "\"q\"", "<a>|b", "normal.txt", "..a", "a..", "~", "-rf", "\xff\xfe.bin", "\xc3\x28"};
    const auto k = r.below(13);
    if (k < 5) return fixed[r.below(sizeof fixed / sizeof fixed[0])];
    if (k == 5) return std::string(1 + r.below(4096), r.chance(1, 2) ? 'a' : '.');
    if (k == 6) { std::string s; const auto n = r.below(12); for (std::uint64_t i = 0; i < n; ++i) s += r.chance(1, 2) ? "../" : "..\\"; return s + gen::rand_string(r, r.below(8)); }
    if (k == 7) { std::string s = gen::rand_string(r, 1 + r.below(40)); return s; }
    if (k == 8) { std::string s = "."; const auto n = r.below(4); for (std::uint64_t i = 0; i < n; ++i) s.push_back(static_cast<char>(r.below(0x20))); s += "."; return s; }
    if (k >= 10) {
        // a hostile piece at the start / in the middle / at the end (also as the extension) of a filler that brings the whole
        // name just below, to, or beyond the 255-byte cap: what the shortening step keeps must be as clean as a short name
        std::string piece = r.chance(1, 2) ? std::string(fixed[r.below(sizeof fixed / sizeof fixed[0])]) : gen::rand_string(r, 1 + r.below(30));
        static const std::size_t totals[] = {250, 254, 255, 256, 257, 260, 300, 511, 512, 1000};
        const std::size_t total = totals[r.below(sizeof totals / sizeof totals[0])];
        const std::size_t fill = total > piece.size() ? total - piece.size() : 1;
        const char fc = "ab. _"[r.below(5)];
        switch (r.below(4)) {
            case 0: return piece + std::string(fill, fc);
            case 1: return std::string(fill / 2, fc) + piece + std::string(fill - fill / 2, fc);
            case 2: return std::string(fill, fc) + piece;
            default: return std::string(fill > 1 ? fill - 1 : 1, fc) + "." + piece;
        }
    }
    std::string s = fixed[r.below(sizeof fixed / sizeof fixed[0])];
    s.insert(r.below(s.size() + 1), 1, "/\\\0\x1f.:"[r.below(6)]);
    return s;
}

void c31n_case(Ctx& c, Rng& r) {
    Config cfg = base_config(r);
    Node node(fx::peer_id_n(1, 0xC1), cfg);
    for (int i = 0; i < 16; ++i) {
        const auto name = hostile_name(r);
        const auto m = node.store_chunk(fx::chunk_id_n(static_cast<unsigned>(i)), r.bytes(8), seconds(60), name);
        c.note("names.stores");
        const auto it = m.metadata.find("filename");
        if (it == m.metadata.end()) { c.note("names.dropped"); continue; }
        std::string why;
        c.note("names.recorded");
        if (!name_is_safe(it->second, why)) c.violation("C31:node:unsafe-filename-recorded:" + why, J().kv("input", hx::hex(name.data(), std::min<std::size_t>(name.size(), 80))).kv("recorded", hx::hex(it->second.data(), std::min<std::size_t>(it->second.size(), 80))).str());
        if (it->second.size() > 255) c.violation("C31:node:filename-longer-than-255", J().kv("len", it->second.size()).str());
        // the manifest must survive its own codec with the name intact
        const auto back = protocol::decode_manifest(protocol::encode_manifest(m));
        if (back.metadata.at("filename") != it->second) c.violation("C31:node:filename-changed-by-codec", "{}");
        c.sig(hx::mix(hx::hash_str(name), hx::hash_str(it->second)));
    }
    c.sig(hx::mix(31, c.cur_case % 1024));
    if (c.cur_case % 997 == 0) c.sample(J().kv("example_input", "../../etc/passwd").kv("stores_per_case", 16).str());
}
HX_PROPERTY("C31n", c31n_case);

// ------------------------------------------------------------------------------------ C34
bool v4_nonroutable(const std::uint8_t a[4]) {
    if (a[0] == 0 || a[0] == 127 || a[0] == 10) return true;
    if (a[0] == 172 && (a[1] & 0xf0) == 16) return true;
    if (a[0] == 192 && a[1] == 168) return true;
    if (a[0] == 169 && a[1] == 254) return true;
    if (a[0] == 100 && (a[1] & 0xc0) == 64) return true;
    if (a[0] == 192 && a[1] == 0 && a[2] == 2) return true;
    if (a[0] == 198 && a[1] == 51 && a[2] == 100) return true;
    if (a[0] == 203 && a[1] == 0 && a[2] == 113) return true;
    if (a[0] == 198 && (a[1] & 0xfe) == 18) return true;
    if (a[0] >= 224) return true;
    return false;
}
// classification from the statement's list, on inet_pton bytes; returns a class name or "" for routable / not an IP literal
std::string nonroutable_class(const std::string& host) {
    std::uint8_t b4[4];
    std::uint8_t b6[16];
    if (inet_pton(AF_INET, host.c_str(), b4) == 1) return v4_nonroutable(b4) ? "ipv4" : "";
    if (inet_pton(AF_INET6, host.c_str(), b6) == 1) {
        static const std::uint8_t zero[16] = {0};
        if (std::memcmp(b6, zero, 16) == 0) return "ipv6-unspecified";
        if (std::memcmp(b6, zero, 15) == 0 && b6[15] == 1) return "ipv6-loopback";
        if ((b6[0] & 0xfe) == 0xfc) return "ipv6-unique-local";
        if (b6[0] == 0xfe && (b6[1] & 0xc0) == 0x80) return "ipv6-link-local";
        if (b6[0] == 0x20 && b6[1] == 0x01 && b6[2] == 0x0d && b6[3] == 0xb8) return "ipv6-documentation";
        if (b6[0] == 0xff) return "ipv6-multicast";
        if (std::memcmp(b6, zero, 10) == 0 && b6[10] == 0xff && b6[11] == 0xff) return v4_nonroutable(b6 + 12) ? "ipv4-mapped" : "";
    }
    return "";
}
std::string host_of(const std::string& endpoint) {
    const auto p = endpoint.find_last_of(':');
    return p == std::string::npos ? endpoint : endpoint.substr(0, p);
}

std::string g_stun_address;
std::uint16_t g_stun_port = 0;
bool g_stun_fail = false;

std::string gen_address(Rng& r, bool& is_v6) {
    is_v6 = false;
    const auto k = r.below(10);
    std::uint8_t a[4];
    if (k <= 4) {
        // every IPv4 prefix boundary +-1
        static const std::uint32_t edges[] = {0x00000000u, 0x00ffffffu, 0x01000000u, 0x09ffffffu, 0x0a000000u, 0x0affffffu, 0x0b000000u, 0x643fffffu, 0x64400000u, 0x647fffffu, 0x64800000u,
                                              0x7effffffu, 0x7f000000u, 0x7fffffffu, 0x80000000u, 0xa9fdffffu, 0xa9fe0000u, 0xa9feffffu, 0xa9ff0000u, 0xac0fffffu, 0xac100000u, 0xac1fffffu, 0xac200000u,
                                              0xbfffffffu, 0xc0000000u, 0xc00001ffu, 0xc0000200u, 0xc00002ffu, 0xc0000300u, 0xc0a7ffffu, 0xc0a80000u, 0xc0a8ffffu, 0xc0a90000u,
                                              0xc611ffffu, 0xc6120000u, 0xc612ffffu, 0xc6130000u, 0xc613ffffu, 0xc6140000u, 0xc63363ffu, 0xc6336400u, 0xc63364ffu, 0xc6336500u,
                                              0xcb0070ffu, 0xcb007100u, 0xcb0071ffu, 0xcb007200u, 0xdfffffffu, 0xe0000000u, 0xefffffffu, 0xf0000000u, 0xffffffffu, 0x08080808u, 0x01010101u};
        const auto v = edges[r.below(sizeof edges / sizeof edges[0])];
        a[0] = v >> 24; a[1] = v >> 16; a[2] = v >> 8; a[3] = v;
    } else if (k <= 6) {
        for (auto& x : a) x = r.byte();
    } else {
        is_v6 = true;
        std::uint8_t b[16];
        for (auto& x : b) x = r.byte();
        const auto kk = r.below(12);
        if (kk == 0) std::memset(b, 0, 16);
        else if (kk == 1) { std::memset(b, 0, 16); b[15] = 1; }
        else if (kk == 2) b[0] = 0xfc | (r.byte() & 1);
        else if (kk == 3) { b[0] = 0xfe; b[1] = 0x80 | (r.byte() & 0x3f); }
        else if (kk == 4) { b[0] = 0x20; b[1] = 0x01; b[2] = 0x0d; b[3] = 0xb8; }
        else if (kk == 5) b[0] = 0xff;
        else if (kk <= 8) { std::memset(b, 0, 10); b[10] = b[11] = 0xff; bool dummy; const auto v4 = gen_address(r, dummy); std::uint8_t q[4]; if (inet_pton(AF_INET, v4.c_str(), q) == 1) std::memcpy(b + 12, q, 4); }
        else if (kk == 9) { b[0] = 0x20; b[1] = 0x01; b[2] = 0x48; b[3] = 0x60; }
        else if (kk == 10) { b[0] = 0xfe; b[1] = 0xc0; }   // fec0::/10 is not in the statement's list
        char buf[INET6_ADDRSTRLEN];
        inet_ntop(AF_INET6, b, buf, sizeof buf);
        return buf;
    }
    char buf[INET_ADDRSTRLEN];
    inet_ntop(AF_INET, a, buf, sizeof buf);
    return buf;
}

void c34_case(Ctx& c, Rng& r) {
    static network::NatTraversalManager::TestHooks hooks{[]() -> std::optional<network::NatTraversalManager::StunQueryResult> {
        if (g_stun_fail) return std::nullopt;
        network::NatTraversalManager::StunQueryResult q{};
        q.address = g_stun_address;
        q.reported_port = g_stun_port;
        q.server = "test";
        return q;
    }};
    network::NatTraversalManager::set_test_hooks(&hooks);
    Config cfg = base_config(r);
    cfg.nat_stun_enabled = true;
    bool v6 = false;
    g_stun_address = gen_address(r, v6);
    g_stun_port = static_cast<std::uint16_t>(r.next());
    g_stun_fail = r.chance(1, 12);
    cfg.advertise_allow_private = r.chance(1, 3);
    cfg.advertise_auto_mode = static_cast<Config::AdvertiseAutoMode>(r.below(3));
    static const char* hosts[] = {"127.0.0.1", "0.0.0.0", "", "192.168.1.20", "8.8.4.4", "10.1.1.1", "localhost"};
    cfg.control_host = hosts[r.below(7)];
    const bool manual = r.chance(1, 4);
    if (manual) { Config::AdvertisedEndpoint e{}; e.host = r.chance(1, 2) ? "203.0.113.77" : "example.org"; e.port = static_cast<std::uint16_t>(r.chance(1, 2) ? 0 : 1 + r.below(60000)); e.manual = true; cfg.advertised_endpoints.push_back(e); }
    if (r.chance(1, 6)) { Config::AdvertisedEndpoint e{}; e.host = "stale.auto.example"; e.port = 1; e.manual = false; cfg.advertised_endpoints.push_back(e); }
    Node node(fx::peer_id_n(1, 0xD1), cfg);
    // one case in three restarts the transport of the same node once or twice, each time behind a different STUN answer
    // (a laptop changing networks, a daemon whose uplink was renumbered): the oracle applies to every start on its own
    const int rounds = r.chance(1, 3) ? 2 + static_cast<int>(r.below(2)) : 1;
    for (int round = 0; round < rounds; ++round) {
    if (round > 0) {
        g_stun_address = gen_address(r, v6);
        g_stun_port = static_cast<std::uint16_t>(r.next());
        g_stun_fail = r.chance(1, 12);
        c.note("advertise.restarts-with-another-stun-answer");
    }
    const std::string stun_class = nonroutable_class(g_stun_address);
    node.start_transport(0);
    const auto manifest = node.store_chunk(fx::chunk_id_n(1 + static_cast<unsigned>(round)), r.bytes(8), seconds(60));
    const auto eff = node.config();
    node.stop_transport();
    c.note("advertise.cases");
    c.note(stun_class.empty() ? "advertise.stun-address-routable" : "advertise.stun-address-nonroutable");
    const char* modes[] = {"on", "warn", "off"};
    const auto desc = [&] { return J().kv("stun", g_stun_fail ? "failed" : g_stun_address).kv("class", stun_class).kv("mode", modes[static_cast<int>(cfg.advertise_auto_mode)]).kv("allow_private", cfg.advertise_allow_private).kv("control_host", cfg.control_host).kv("manual", manual).kv("conflict", eff.auto_advertise_conflict).kv("start", round + 1); };
    // what the node publishes automatically: non-manual advertised endpoints and non-manual ("transport") manifest hints
    std::vector<std::pair<std::string, std::string>> published;   // (host, where)
    for (auto& e : eff.advertised_endpoints) if (!e.manual) published.emplace_back(e.host, "advertised-endpoint");
    for (auto& h : manifest.discovery_hints) if (h.scheme == "transport") published.emplace_back(host_of(h.endpoint), "manifest-transport-hint");
    bool stun_published = false;
    for (auto& [host, where] : published) {
        const auto cls = nonroutable_class(host);
        // a host that is merely the operator's configured control host is configuration, not discovery
        const bool is_config = (host == cfg.control_host || (cfg.control_host.empty() && host == "127.0.0.1")) && host != g_stun_address;
        if (host == g_stun_address && !g_stun_fail) stun_published = true;
        if (is_config) continue;
        c.note("advertise.published-auto-endpoints");
        if (!cfg.advertise_allow_private && !cls.empty()) c.violation("C34:publish:nonroutable-address-published:" + cls + ":" + where, desc().kv("host", host).str());
        if (cfg.advertise_auto_mode == Config::AdvertiseAutoMode::Off) c.violation("C34:mode-off:auto-discovered-endpoint-published:" + where, desc().kv("host", host).str());
        if (cfg.advertise_auto_mode == Config::AdvertiseAutoMode::Warn && eff.auto_advertise_conflict) c.violation("C34:mode-warn:conflicting-candidates-published:" + where, desc().kv("host", host).str());
    }
    // non-vacuity: a routable STUN address in mode "on" must be published
    bool clearly_public = false;
    {
        std::uint8_t b4[4], b6[16];
        if (inet_pton(AF_INET, g_stun_address.c_str(), b4) == 1) clearly_public = stun_class.empty();
        else if (inet_pton(AF_INET6, g_stun_address.c_str(), b6) == 1) clearly_public = stun_class.empty() && (b6[0] & 0xe0) == 0x20 && g_stun_address.rfind("2001:db8", 0) != 0;   // 2000::/3 global unicast
    }
    if (!g_stun_fail && clearly_public && cfg.advertise_auto_mode == Config::AdvertiseAutoMode::On && !manual) {
        c.note("advertise.must-publish-cases");
        if (!stun_published) c.violation("C34:publish:routable-address-not-published-in-mode-on", desc().str());
    }
    }   // rounds
    c.sig(hx::mix(hx::hash_str(g_stun_address), hx::mix(static_cast<int>(cfg.advertise_auto_mode), hx::mix(cfg.advertise_allow_private, hx::hash_str(cfg.control_host)))));
    if (c.cur_case % 499 == 0) c.sample(J().kv("stun", g_stun_address).kv("mode", static_cast<int>(cfg.advertise_auto_mode)).kv("allow_private", cfg.advertise_allow_private).kv("control_host", cfg.control_host).kv("starts", rounds).str());
}
HX_PROPERTY("C34", c34_case);

// ------------------------------------------------------------------------------------ C39 (identical tick instants)
// The open finding of C39 is that the rotated key depends on the rotating node's own clock reading, so two ends that
// tick a millisecond apart diverge.  What does hold on the repaired tree - and what this part pins down - is the
// remainder of the property: when both ends of every session rotate at identical instants (frozen virtual clock, every
// node ticked at the same reading), each rotation leaves both ends of *every* session on one key, whatever the number
// of sessions a node has and whenever they were established.
void c39f_case(Ctx& c, Rng& r) {
    Config cfg = base_config(r);
    static const std::int64_t ivs[] = {5, 6, 10, 60, 300};
    const std::int64_t iv = ivs[r.below(5)];
    cfg.key_rotation_interval = seconds(iv);
    cfg.handshake_cooldown = seconds(0);
    cfg.handshake_pow_difficulty = 0;
    cfg.cleanup_interval = seconds(1 + r.below(30));
    const unsigned n = 2 + static_cast<unsigned>(r.below(3));   // node 0 is the hub, 1..n-1 its peers
    std::vector<std::unique_ptr<Node>> nodes;
    std::vector<Config> cfgs;
    for (unsigned i = 0; i < n; ++i) {
        Config ci = cfg;
        ci.identity_seed = static_cast<std::uint32_t>(r.next());
        cfgs.push_back(ci);
        nodes.push_back(std::make_unique<Node>(fx::peer_id_n(60 + i, 0xC3), ci));
    }
    auto tick_all = [&] { for (auto& nd : nodes) nd->tick(); };
    std::map<unsigned, std::optional<std::array<std::uint8_t, 32>>> last_hub_key;
    auto compare = [&](const char* when, std::uint64_t step) {
        for (unsigned i = 1; i < n; ++i) {
            const auto a = nodes[0]->session_key(nodes[i]->id());
            const auto b = nodes[i]->session_key(nodes[0]->id());
            if (!a && !b) continue;
            c.note("rotation.identical-instant-comparisons");
            if (a) { auto& prev = last_hub_key[i]; if (prev && *prev != *a) c.note("rotation.key-changes-observed"); prev = *a; }
            if (!a || !b || *a != *b)
                c.violation("C39:rotation:keys-diverge-although-both-ends-tick-at-identical-instants",
                            J().kv("when", when).kv("step", step).kv("peer", i).kv("sessions_of_hub", n - 1).kv("interval_s", iv).kv("hub_has_key", a.has_value()).kv("peer_has_key", b.has_value()).str());
        }
    };
    std::uint64_t sig = hx::mix(n, static_cast<std::uint64_t>(iv));
    // sessions are established one after the other, up to 1.5 intervals apart, everybody ticking in between
    for (unsigned i = 1; i < n; ++i) {
        const auto wa = nodes[0]->generate_handshake_work(nodes[i]->id());
        const auto wb = nodes[i]->generate_handshake_work(nodes[0]->id());
        if (!wa || !wb) return;
        const bool ok = nodes[0]->perform_handshake(nodes[i]->id(), nodes[i]->public_identity(), *wb) && nodes[i]->perform_handshake(nodes[0]->id(), nodes[0]->public_identity(), *wa);
        if (!ok) { c.violation("harness:C39f:handshake-failed", "{}"); return; }
        compare("after-handshake", i);
        const auto gap_steps = r.below(4);
        for (std::uint64_t g = 0; g < gap_steps; ++g) {
            vclk::advance(nanoseconds(static_cast<std::int64_t>(r.below(static_cast<std::uint64_t>(iv) * NS / 2 + 1))));
            tick_all();
            compare("between-handshakes", g);
        }
    }
    const auto nsteps = 6 + r.below(30);
    for (std::uint64_t s = 0; s < nsteps; ++s) {
        if (n > 1 && r.chance(1, 8)) {
            // a peer restarts (same identity, fresh process state) and the session is set up again by a full handshake; the hub
            // keeps running.  From the handshake on both ends are on one key again, and stay so through the following rotations.
            const unsigned i = 1 + static_cast<unsigned>(r.below(n - 1));
            nodes[i] = std::make_unique<Node>(fx::peer_id_n(60 + i, 0xC3), cfgs[i]);
            const auto wa = nodes[0]->generate_handshake_work(nodes[i]->id());
            const auto wb = nodes[i]->generate_handshake_work(nodes[0]->id());
            if (wa && wb && nodes[0]->perform_handshake(nodes[i]->id(), nodes[i]->public_identity(), *wb) && nodes[i]->perform_handshake(nodes[0]->id(), nodes[0]->public_identity(), *wa)) {
                c.note("rotation.peer-restarts-with-re-handshake");
                last_hub_key.erase(i);
                compare("after-re-handshake", s);
            } else { c.violation("harness:C39f:re-handshake-failed", "{}"); return; }
            sig = hx::mix(sig, 77);
        }
        const auto k = r.below(6);
        std::int64_t adv;
        if (k == 0) adv = iv * NS;                                                   // exactly one interval
        else if (k == 1) adv = iv * NS - 1;
        else if (k == 2) adv = iv * NS + 1;
        else if (k == 3) adv = static_cast<std::int64_t>(r.below(1000)) * 1000000;      // a tick period (0..1 s)
        else if (k == 4) adv = static_cast<std::int64_t>(r.below(static_cast<std::uint64_t>(2 * iv) * NS));
        else adv = NS;
        vclk::advance(nanoseconds(adv));
        tick_all();
        c.note("rotation.identical-instant-ticks");
        compare("after-tick", s);
        sig = hx::mix(sig, k);
    }
    c.sig(sig);
    if (c.cur_case % 199 == 0) c.sample(J().kv("mode", "identical tick instants").kv("nodes", n).kv("interval_s", iv).kv("ticks", nsteps).str());
}
HX_PROPERTY("C39f", c39f_case);

struct Init { Init() { vclk::freeze(); fx::silence_cerr(); } } g_init;

}  // namespace

// The repository's Node.cpp compiled into this TU so its anonymous-namespace PoW helpers are observable.
#include "src/core/Node.cpp"

#include "tu_node.hpp"

namespace tu_node {
std::size_t count_leading_zero_bits(const std::array<std::uint8_t, 32>& digest) { return ephemeralnet::count_leading_zero_bits(digest); }
std::array<std::uint8_t, 32> handshake_digest(const ephemeralnet::PeerId& initiator, const ephemeralnet::PeerId& responder,
                                              std::uint32_t initiator_public, std::uint64_t nonce) {
    return ephemeralnet::handshake_pow_digest(initiator, responder, initiator_public, nonce);
}
std::array<std::uint8_t, 32> announce_digest(const ephemeralnet::protocol::AnnouncePayload& payload) {
    return ephemeralnet::announce_pow_digest(payload);
}
}  // namespace tu_node

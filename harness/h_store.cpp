// Bare ChunkStore / KademliaTable monitors under the frozen virtual clock:
//   C01s  store part of C01 (lookup exactly while live)
//   C04   persisted files vs chunk lifetime (histories, restarts, wipe observation via hard links)
//   C04crash  crash (SIGKILL) at every filesystem syscall of store/overwrite/sweep, then a recovery instance
//   C06   provider lookups vs reference model
//   C07   routing table structure and closest-peer queries
#include <dirent.h>
#include <fcntl.h>
#include <signal.h>
#include <sys/ptrace.h>
#include <sys/stat.h>
#include <sys/syscall.h>
#include <sys/user.h>
#include <sys/wait.h>
#include <unistd.h>

#include <algorithm>
#include <filesystem>
#include <fstream>
#include <map>
#include <set>

#include "common/hx.hpp"
#include "common/vclock.hpp"
#include "ephemeralnet/Types.hpp"
#include "ephemeralnet/dht/KademliaTable.hpp"
#include "ephemeralnet/storage/ChunkStore.hpp"

using namespace ephemeralnet;
using hx::Ctx;
using hx::J;
using hx::Rng;
namespace fs = std::filesystem;
using std::chrono::nanoseconds;
using std::chrono::seconds;
using SteadyTP = std::chrono::steady_clock::time_point;

namespace {

std::int64_t now_ns() { return std::chrono::steady_clock::now().time_since_epoch().count(); }

ChunkId small_id(unsigned k) {
    ChunkId id{};
    id.fill(static_cast<std::uint8_t>(0x10 + k));
    id[0] = static_cast<std::uint8_t>(k);
    return id;
}

// advance the frozen clock: 0, 1ns, to just before / exactly at / just after a deadline, or random
void advance_clock(Rng& r, const std::vector<std::int64_t>& deadlines, Ctx& c) {
    const auto k = r.below(8);
    const auto now = now_ns();
    std::int64_t target = now;
    std::vector<std::int64_t> future;
    for (auto d : deadlines) if (d > now) future.push_back(d);
    if (k == 0) target = now;
    else if (k == 1) target = now + 1;
    else if (k <= 5 && !future.empty()) {
        const auto d = future[r.below(future.size())];
        if (k == 2) target = d - 1;
        else if (k == 3) { target = d; c.note("clock.advance-exactly-to-deadline"); }
        else if (k == 4) target = d + 1;
        else target = now + static_cast<std::int64_t>(r.below(static_cast<std::uint64_t>(d - now) + 1));
    } else {
        target = now + static_cast<std::int64_t>(r.below(r.chance(1, 2) ? 3'000'000'000ULL : 400'000'000'000ULL));
    }
    if (target > now) vclk::advance(nanoseconds(target - now));
}

// ------------------------------------------------------------------------------------ C01s
struct ModelChunk { std::vector<std::uint8_t> bytes; std::int64_t deadline; };

void c01s_case(Ctx& c, Rng& r) {
    Config cfg{};
    cfg.default_chunk_ttl = seconds(1 + r.below(50));
    ChunkStore store(cfg);
    std::map<unsigned, ModelChunk> model;
    const unsigned nids = 1 + static_cast<unsigned>(r.below(4));
    const auto nops = 10 + r.below(50);
    std::uint64_t sig = nids;
    for (std::uint64_t op = 0; op < nops; ++op) {
        const auto k = r.below(10);
        const unsigned idn = static_cast<unsigned>(r.below(nids));
        const auto id = small_id(idn);
        if (k <= 2) {
            static const std::int64_t tt[] = {0, -1, 1, 2, 3, 10, 60, 3600, -100};
            std::int64_t ttl = r.chance(1, 2) ? tt[r.below(9)] : static_cast<std::int64_t>(r.below(200));
            auto data = r.bytes(r.below(3) == 0 ? 0 : 1 + r.below(64));
            store.put(id, data, seconds(ttl));
            const auto eff = std::max<std::int64_t>(ttl > 0 ? ttl : cfg.default_chunk_ttl.count(), 1);
            model[idn] = ModelChunk{data, now_ns() + eff * 1'000'000'000LL};
            c.note("store.puts");
            sig = hx::mix(sig, 1 + (ttl <= 0));
        } else if (k <= 6) {
            const bool rec = r.chance(1, 2);
            std::optional<ChunkData> got;
            if (rec) { auto g = store.get_record(id); if (g) got = g->data; } else got = store.get(id);
            const auto it = model.find(idn);
            const bool live = it != model.end() && now_ns() < it->second.deadline;
            c.note(live ? "store.reads-live" : "store.reads-dead");
            if (it != model.end() && now_ns() == it->second.deadline) c.note("store.reads-exactly-at-deadline");
            if (it != model.end() && now_ns() + 1 == it->second.deadline) c.note("store.reads-1ns-before-deadline");
            if (live && (!got || *got != it->second.bytes))
                c.violation("C01:store:live-chunk-not-returned", J().kv("op", op).kv("remaining_ns", it->second.deadline - now_ns()).kv("has", got.has_value()).str());
            if (!live && got)
                c.violation("C01:store:expired-chunk-served", J().kv("op", op).kv("past_deadline_ns", it == model.end() ? -1 : now_ns() - it->second.deadline).str());
            sig = hx::mix(sig, 3 + live);
        } else if (k == 7) {
            const auto removed = store.sweep_expired();
            for (auto& rid : removed) {
                const unsigned n = rid[0];
                auto it = model.find(n);
                if (it != model.end() && now_ns() < it->second.deadline) c.violation("C01:store:sweep-removed-live-chunk", J().kv("op", op).str());
            }
            c.note("store.sweeps");
            sig = hx::mix(sig, 5);
        } else {
            std::vector<std::int64_t> ds;
            for (auto& [_, m] : model) ds.push_back(m.deadline);
            advance_clock(r, ds, c);
            sig = hx::mix(sig, 6);
        }
    }
    c.sig(sig);
    if (c.cur_case % 499 == 0) c.sample(J().kv("ids", nids).kv("ops", nops).kv("default_ttl", cfg.default_chunk_ttl.count()).str());
}
HX_PROPERTY("C01s", c01s_case);

// ------------------------------------------------------------------------------------ C04
// Everything in the (dedicated) storage directory counts: a staging or temporary file holding chunk bytes is
// as much a leftover as a *.chunk file.
std::vector<std::string> list_chunk_files(const std::string& dir) {
    std::vector<std::string> out;
    std::error_code ec;
    for (auto& e : fs::recursive_directory_iterator(dir, ec)) {
        if (e.is_directory(ec)) continue;
        out.push_back(fs::relative(e.path(), dir, ec).string());
    }
    std::sort(out.begin(), out.end());
    return out;
}
std::vector<std::uint8_t> read_file(const std::string& p) {
    std::ifstream f(p, std::ios::binary);
    return std::vector<std::uint8_t>((std::istreambuf_iterator<char>(f)), std::istreambuf_iterator<char>());
}

struct Persisted {
    std::vector<std::uint8_t> bytes;
    std::int64_t deadline;
    bool cleaned_after_expiry{false};
    bool orphan{false};   // written by an earlier instance
};

struct WatchLink { std::string link; std::vector<std::uint8_t> original; std::string name; };

void c04_case(Ctx& c, Rng& r) {
    const std::string dir = c.scratch + "/store-" + std::to_string(c.cur_case);
    const std::string watch = c.scratch + "/watch-" + std::to_string(c.cur_case);
    fs::remove_all(dir);
    fs::remove_all(watch);
    fs::create_directories(watch);
    Config cfg{};
    cfg.storage_persistent_enabled = true;
    cfg.storage_wipe_on_expiry = true;
    cfg.storage_wipe_passes = static_cast<std::uint8_t>(r.below(4));   // 0 is sanitised to 1
    cfg.storage_directory = dir;
    cfg.default_chunk_ttl = seconds(5);
    auto store = std::make_unique<ChunkStore>(cfg);
    std::map<std::string, Persisted> model;   // by file name
    const unsigned nids = 1 + static_cast<unsigned>(r.below(3));
    const auto nops = 8 + r.below(30);
    std::uint64_t sig = cfg.storage_wipe_passes;
    std::uint64_t linkseq = 0;

    auto fname = [&](unsigned idn) { return chunk_id_to_string(small_id(idn)) + ".chunk"; };
    auto make_links = [&]() {
        std::vector<WatchLink> links;
        for (auto& name : list_chunk_files(dir)) {
            WatchLink w;
            w.name = name;
            w.link = watch + "/" + name + "." + std::to_string(linkseq++);
            if (::link((dir + "/" + name).c_str(), w.link.c_str()) == 0) { w.original = read_file(w.link); links.push_back(std::move(w)); }
        }
        return links;
    };
    auto check_wiped = [&](const std::vector<WatchLink>& links, const char* when, std::uint64_t op) {
        for (auto& w : links) {
            struct stat st{};
            if (::stat(w.link.c_str(), &st) != 0) continue;
            const bool still_same_file = [&] { struct stat s2{}; return ::stat((dir + "/" + w.name).c_str(), &s2) == 0 && s2.st_ino == st.st_ino; }();
            if (!still_same_file) {
                // the file left the storage directory: its blocks must have been overwritten first
                const auto after = read_file(w.link);
                c.note("files.removals-observed-via-hardlink");
                if (w.original.size() >= 64) {
                    std::size_t same = 0;
                    const auto n = std::min(after.size(), w.original.size());
                    for (std::size_t i = 0; i < n; ++i) same += after[i] == w.original[i];
                    if (after.size() < w.original.size() || same * 20 > w.original.size())
                        c.violation(std::string("C04:wipe:removed-without-overwrite:") + when,
                                    J().kv("op", op).kv("size", w.original.size()).kv("after_size", after.size()).kv("bytes_unchanged", same).str());
                }
            }
            ::unlink(w.link.c_str());
        }
    };
    auto check_dir = [&](const char* when, std::uint64_t op, bool after_cleanup) {
        const auto files = list_chunk_files(dir);
        std::set<std::string> fileset(files.begin(), files.end());
        const auto now = now_ns();
        for (auto& [name, m] : model) {
            const bool live = !m.orphan && now < m.deadline;
            if (live) {
                c.note("files.live-chunk-file-checks");
                if (!fileset.count(name)) c.violation(std::string("C04:file:missing-for-live-chunk:") + when, J().kv("op", op).str());
                else if (read_file(dir + "/" + name) != m.bytes) c.violation(std::string("C04:file:content-differs:") + when, J().kv("op", op).str());
            } else if (after_cleanup) {
                c.note("files.expired-after-cleanup-checks");
                if (fileset.count(name))
                    c.violation(std::string("C04:file:outlives-chunk:") + (m.orphan ? "orphan-from-earlier-instance" : "expired") + ":" + when,
                                J().kv("op", op).kv("past_deadline_ns", now - m.deadline).kv("file", name).str());
            }
        }
        for (auto& f : files)
            if (!model.count(f)) c.violation(std::string("C04:file:unknown-file:") + when, J().kv("op", op).kv("file", f).str());
    };

    for (std::uint64_t op = 0; op < nops; ++op) {
        const auto k = r.below(12);
        const unsigned idn = static_cast<unsigned>(r.below(nids));
        const auto id = small_id(idn);
        if (k <= 3) {
            const std::int64_t ttl = r.chance(1, 4) ? 0 : static_cast<std::int64_t>(1 + r.below(20));
            static const std::size_t sizes[] = {0, 1, 100, 4095, 4096, 4097, 9000, 20000};
            auto data = r.bytes(sizes[r.below(8)]);
            const auto links = make_links();
            store->put(id, data, seconds(ttl));
            check_wiped(links, "overwrite", op);
            const auto eff = std::max<std::int64_t>(ttl > 0 ? ttl : cfg.default_chunk_ttl.count(), 1);
            model[fname(idn)] = Persisted{data, now_ns() + eff * 1'000'000'000LL, false, false};
            c.note("files.puts");
            check_dir("after-put", op, false);
            sig = hx::mix(sig, 1);
        } else if (k <= 5) {
            const auto it = model.find(fname(idn));
            const bool was_expired = it != model.end() && !it->second.orphan && now_ns() >= it->second.deadline;
            (void)(r.chance(1, 2) ? store->get_record(id).has_value() : store->get(id).has_value());
            if (was_expired) c.note("files.expiry-first-noticed-by-lookup");
            check_dir("after-lookup", op, false);
            sig = hx::mix(sig, 2 + was_expired);
        } else if (k <= 7) {
            const auto links = make_links();
            store->sweep_expired();
            check_wiped(links, "sweep", op);
            c.note("files.cleanups");
            check_dir("after-cleanup", op, true);
            // forget what has been cleaned
            for (auto it = model.begin(); it != model.end();) {
                if (it->second.orphan || now_ns() >= it->second.deadline) it = model.erase(it); else ++it;
            }
            sig = hx::mix(sig, 4);
        } else if (k == 8) {
            // daemon restart on the same directory: in-memory index is lost, files stay
            store.reset();
            for (auto& [_, m] : model) m.orphan = true;
            const auto links = make_links();
            store = std::make_unique<ChunkStore>(cfg);
            c.note("files.restarts");
            if (r.chance(1, 2)) {
                store->sweep_expired();
                check_wiped(links, "restart-cleanup", op);
                check_dir("after-restart-cleanup", op, true);
                for (auto it = model.begin(); it != model.end();) { if (it->second.orphan) it = model.erase(it); else ++it; }
            } else {
                // files may still be there until the first cleanup; drop model entries for files that are already gone
                const auto files = list_chunk_files(dir);
                std::set<std::string> fsn(files.begin(), files.end());
                check_wiped(links, "restart", op);
                for (auto it = model.begin(); it != model.end();) { if (it->second.orphan && !fsn.count(it->first)) it = model.erase(it); else ++it; }
            }
            sig = hx::mix(sig, 5);
        } else {
            std::vector<std::int64_t> ds;
            for (auto& [_, m] : model) ds.push_back(m.deadline);
            advance_clock(r, ds, c);
            sig = hx::mix(sig, 6);
        }
    }
    // final: everything expires, one cleanup, directory must be empty
    vclk::advance_s(100000);
    store->sweep_expired();
    for (auto& [_, m] : model) { (void)m; }
    check_dir("final-cleanup", nops, true);
    store.reset();
    fs::remove_all(dir);
    fs::remove_all(watch);
    c.sig(sig);
    if (c.cur_case % 199 == 0) c.sample(J().kv("ids", nids).kv("ops", nops).kv("passes", cfg.storage_wipe_passes).str());
}
HX_PROPERTY("C04", c04_case);

// ------------------------------------------------------------------------------------ C04crash
struct CrashOp { int kind; unsigned idn; std::size_t size; std::int64_t ttl; };   // kind 0 put, 1 advance+sweep, 2 advance+lookup

void run_scenario(const Config& cfg, const std::vector<CrashOp>& ops) {
    ChunkStore store(cfg);
    std::uint8_t fill = 0x41;
    for (auto& op : ops) {
        if (op.kind == 0) {
            std::vector<std::uint8_t> data(op.size, fill++);
            store.put(small_id(op.idn), data, seconds(op.ttl));
        } else if (op.kind == 1) {
            vclk::advance_s(op.ttl);
            store.sweep_expired();
        } else {
            vclk::advance_s(op.ttl);
            (void)store.get_record(small_id(op.idn));
        }
    }
}

bool is_fs_syscall(long nr) {
    switch (nr) {
        case SYS_openat: case SYS_open: case SYS_creat: case SYS_write: case SYS_writev: case SYS_pwrite64: case SYS_ftruncate:
        case SYS_truncate: case SYS_rename: case SYS_renameat: case SYS_renameat2: case SYS_unlink: case SYS_unlinkat: case SYS_close:
        case SYS_fsync: case SYS_fdatasync: case SYS_mkdir: case SYS_mkdirat: case SYS_link: case SYS_linkat:
            return true;
        default: return false;
    }
}

// runs the scenario in a traced child; kills it at the kill_at-th filesystem syscall entry (1-based).
// returns the number of filesystem syscalls seen (child finished) or -1 when killed.
long traced_run(const Config& cfg, const std::vector<CrashOp>& ops, long kill_at, bool& harness_error) {
    harness_error = false;
    const auto saved_offset = vclk::offset_ns();
    const pid_t pid = fork();
    if (pid < 0) { harness_error = true; return 0; }
    if (pid == 0) {
        ptrace(PTRACE_TRACEME, 0, nullptr, nullptr);
        raise(SIGSTOP);
        run_scenario(cfg, ops);
        _exit(0);
    }
    (void)saved_offset;
    int st = 0;
    if (waitpid(pid, &st, 0) < 0 || !WIFSTOPPED(st)) { harness_error = true; kill(pid, SIGKILL); waitpid(pid, &st, 0); return 0; }
    ptrace(PTRACE_SETOPTIONS, pid, nullptr, PTRACE_O_TRACESYSGOOD | PTRACE_O_EXITKILL);
    long count = 0;
    bool in_syscall = false;
    while (true) {
        if (ptrace(PTRACE_SYSCALL, pid, nullptr, nullptr) != 0) { harness_error = true; break; }
        if (waitpid(pid, &st, 0) < 0) { harness_error = true; break; }
        if (WIFEXITED(st) || WIFSIGNALED(st)) {
            if (WIFSIGNALED(st) || WEXITSTATUS(st) != 0) harness_error = true;
            return count;
        }
        if (WIFSTOPPED(st) && WSTOPSIG(st) == (SIGTRAP | 0x80)) {
            in_syscall = !in_syscall;
            if (in_syscall) {
                user_regs_struct regs{};
                ptrace(PTRACE_GETREGS, pid, nullptr, &regs);
                if (is_fs_syscall(static_cast<long>(regs.orig_rax))) {
                    ++count;
                    if (count == kill_at) {
                        kill(pid, SIGKILL);
                        waitpid(pid, &st, 0);
                        return -1;
                    }
                }
            }
        }
    }
    kill(pid, SIGKILL);
    waitpid(pid, &st, 0);
    return count;
}

void c04crash_case(Ctx& c, Rng& r) {
    const std::string dir = c.scratch + "/crash-" + std::to_string(c.cur_case);
    Config cfg{};
    cfg.storage_persistent_enabled = true;
    cfg.storage_wipe_on_expiry = true;
    cfg.storage_wipe_passes = static_cast<std::uint8_t>(1 + r.below(3));
    cfg.storage_directory = dir;
    // scenario
    std::vector<CrashOp> ops;
    static const std::size_t sizes[] = {5000, 9000, 70000, 300};
    const auto shape = c.cur_case % 6;
    const auto sz = sizes[r.below(4)];
    switch (shape) {
        case 0: ops = {{0, 0, sz, 50}}; break;
        case 1: ops = {{0, 0, sz, 50}, {0, 0, sz / 2 + 17, 50}}; break;
        case 2: ops = {{0, 0, sz, 50}, {1, 0, 0, 100}}; break;
        case 3: ops = {{0, 0, sz, 50}, {0, 1, 4200, 500}, {2, 0, 0, 100}, {1, 0, 0, 1}}; break;
        case 4: ops = {{0, 0, sz, 50}, {0, 0, sz + 4096, 20}, {1, 0, 0, 100}}; break;
        default: {
            const auto n = 2 + r.below(4);
            for (std::uint64_t i = 0; i < n; ++i) {
                const auto k = r.below(3);
                ops.push_back({static_cast<int>(k), static_cast<unsigned>(r.below(2)), 300 + r.below(12000), static_cast<std::int64_t>(k == 0 ? 20 + r.below(50) : 30 + r.below(100))});
            }
            ops.insert(ops.begin(), CrashOp{0, 0, sz, 30});
        }
    }
    bool herr = false;
    fs::remove_all(dir);
    const long total = traced_run(cfg, ops, 0, herr);
    if (herr || total <= 0) { c.violation("harness:C04crash:dry-run-failed", J().kv("total", total).str()); fs::remove_all(dir); return; }
    c.note_max("crash.fs-syscalls-in-one-scenario", static_cast<std::uint64_t>(total));
    std::string opdesc;
    for (auto& o : ops) opdesc += (o.kind == 0 ? "put" : (o.kind == 1 ? "sweep" : "lookup")) + std::string("(") + std::to_string(o.idn) + "," + std::to_string(o.size) + "," + std::to_string(o.ttl) + ") ";
    for (long n = 1; n <= total; ++n) {
        fs::remove_all(dir);
        const auto off0 = vclk::offset_ns();
        const long rc = traced_run(cfg, ops, n, herr);
        if (herr) { c.violation("harness:C04crash:trace-failed", J().kv("n", n).str()); break; }
        c.note("crash.points-exercised");
        const auto leftover = list_chunk_files(dir);
        if (!leftover.empty()) c.note("crash.points-leaving-files-behind");
        (void)rc;
        // the next daemon instance on the same directory, long after every deadline
        vclk::advance_s(100000);
        {
            ChunkStore next(cfg);
            next.sweep_expired();
        }
        const auto remaining = list_chunk_files(dir);
        if (!remaining.empty())
            c.violation("C04:crash:file-outlives-chunk-after-restart-and-cleanup",
                        J().kv("scenario", opdesc).kv("killed_at_fs_syscall", n).kv("of", total).kv("files", remaining.size()).kv("passes", cfg.storage_wipe_passes).str());
        c.sig(hx::mix(hx::mix(shape, sz), static_cast<std::uint64_t>(n)));
        vclk::advance(nanoseconds(off0 - vclk::offset_ns()));   // restore the clock for the next crash point
    }
    fs::remove_all(dir);
    if (c.cur_case % 7 == 0) c.sample(J().kv("scenario", opdesc).kv("fs_syscalls", total).kv("passes", cfg.storage_wipe_passes).str());
}
HX_PROPERTY("C04crash", c04crash_case);

// ------------------------------------------------------------------------------------ C06
PeerId peer_n(unsigned n, std::uint8_t salt = 0) {
    PeerId id{};
    id.fill(static_cast<std::uint8_t>(0x80 + salt));
    id[0] = static_cast<std::uint8_t>(n);
    id[1] = static_cast<std::uint8_t>(n >> 8);
    id[31] = static_cast<std::uint8_t>(n * 7 + 1);
    return id;
}

struct ModelProvider { std::string address; std::int64_t deadline; };

void c06_case(Ctx& c, Rng& r) {
    PeerId self{};
    self.fill(0x01);
    KademliaTable table(self, Config{});
    const unsigned nchunks = 2 + static_cast<unsigned>(r.below(3));
    const unsigned npeers = r.chance(1, 3) ? 21 + static_cast<unsigned>(r.below(5)) : 2 + static_cast<unsigned>(r.below(8));
    std::vector<std::map<unsigned, ModelProvider>> model(nchunks);
    const auto nops = 10 + r.below(70);
    std::uint64_t sig = hx::mix(nchunks, npeers > 20);
    std::set<std::int64_t> used_deadlines;
    // with more than 20 peers, start with a burst that announces every peer on chunk 0 (crosses the cap)
    std::uint64_t burst = npeers > 20 ? npeers : 0;
    for (std::uint64_t op = 0; op < nops + burst; ++op) {
        const bool in_burst = op < burst;
        const auto k = in_burst ? 0 : r.below(12);
        const unsigned ch = in_burst ? 0 : static_cast<unsigned>(r.below(nchunks));
        const auto chunk = small_id(ch);
        if (k <= 4) {
            const unsigned p = in_burst ? static_cast<unsigned>(op) : static_cast<unsigned>(r.below(npeers));
            // deliberately mixed long/short TTLs on one chunk
            static const std::int64_t tt[] = {1, 2, 5, 30, 300, 3600, 86400, 0, -5};
            std::int64_t ttl = r.chance(2, 3) ? tt[r.below(9)] : static_cast<std::int64_t>(r.below(1000));
            // keep deadlines distinct so "the 20 expiring last" is unambiguous
            while (ttl > 0 && used_deadlines.count(now_ns() + ttl * 1'000'000'000LL)) vclk::advance(nanoseconds(1));
            PeerContact contact{};
            contact.id = peer_n(p);
            contact.address = "10.0." + std::to_string(p) + "." + std::to_string(op % 250) + ":" + std::to_string(1000 + op);
            table.add_contact(chunk, contact, seconds(ttl));
            const auto dl = now_ns() + ttl * 1'000'000'000LL;
            used_deadlines.insert(dl);
            auto& m = model[ch];
            m[p] = ModelProvider{contact.address, dl};
            while (m.size() > 20) {
                auto worst = m.begin();
                for (auto it = m.begin(); it != m.end(); ++it) if (it->second.deadline < worst->second.deadline) worst = it;
                m.erase(worst);
                c.note("providers.cap-evictions");
            }
            c.note("providers.announcements");
            sig = hx::mix(sig, 1);
        } else if (k == 5) {
            const unsigned p = static_cast<unsigned>(r.below(npeers));
            table.withdraw_contact(chunk, peer_n(p));
            model[ch].erase(p);
            c.note("providers.withdrawals");
            sig = hx::mix(sig, 2);
        } else if (k <= 8) {
            const auto got = table.find_providers(chunk);
            const auto now = now_ns();
            std::map<unsigned, ModelProvider> live;
            for (auto& [p, mp] : model[ch]) if (mp.deadline > now) live[p] = mp;
            c.note("providers.lookups");
            if (!live.empty()) c.note("providers.lookups-nonempty");
            std::map<unsigned, ModelProvider> gotm;
            bool dup = false;
            for (auto& pc : got) {
                const unsigned p = pc.id[0] | (pc.id[1] << 8);
                if (gotm.count(p)) dup = true;
                gotm[p] = ModelProvider{pc.address, pc.expires_at.time_since_epoch().count()};
            }
            std::string why;
            if (dup) why = "duplicate-provider";
            for (auto& [p, mp] : live) {
                auto it = gotm.find(p);
                if (it == gotm.end()) { why = "live-provider-missing"; break; }
                if (it->second.address != mp.address || it->second.deadline != mp.deadline) { why = "stale-address-or-deadline"; break; }
            }
            if (why.empty()) for (auto& [p, gp] : gotm) if (!live.count(p)) { why = model[ch].count(p) ? "expired-provider-returned" : "withdrawn-or-evicted-provider-returned"; break; }
            if (got.size() > 20) why = "more-than-20";
            if (!why.empty())
                c.violation("C06:lookup:" + why, J().kv("op", op).kv("chunk", ch).kv("expected", live.size()).kv("got", got.size()).str());
            sig = hx::mix(sig, 3 + !live.empty());
        } else if (k == 9) {
            table.sweep_expired();
            c.note("providers.sweeps");
            sig = hx::mix(sig, 5);
        } else {
            std::vector<std::int64_t> ds;
            for (auto& m : model) for (auto& [_, mp] : m) ds.push_back(mp.deadline);
            advance_clock(r, ds, c);
            sig = hx::mix(sig, 6);
        }
    }
    c.sig(sig);
    if (c.cur_case % 499 == 0) c.sample(J().kv("chunks", nchunks).kv("peers", npeers).kv("ops", nops).str());
}
HX_PROPERTY("C06", c06_case);

// ------------------------------------------------------------------------------------ C07
int ref_bucket_index(const PeerId& self, const PeerId& peer) {
    // highest differing bit, bit 255 = most significant bit of byte 0
    for (int byte = 0; byte < 32; ++byte) {
        const std::uint8_t d = self[byte] ^ peer[byte];
        if (d) for (int bit = 7; bit >= 0; --bit) if (d & (1u << bit)) return (31 - byte) * 8 + bit;
    }
    return -1;
}
std::array<std::uint8_t, 32> xor_dist(const PeerId& a, const PeerId& b) { std::array<std::uint8_t, 32> d{}; for (int i = 0; i < 32; ++i) d[i] = a[i] ^ b[i]; return d; }

PeerId id_with_prefix(Rng& r, const PeerId& self, unsigned shared_bits) {
    PeerId id = r.arr<32>();
    for (unsigned b = 0; b < shared_bits && b < 256; ++b) {
        const unsigned byte = b / 8, bit = 7 - b % 8;
        id[byte] = static_cast<std::uint8_t>((id[byte] & ~(1u << bit)) | (self[byte] & (1u << bit)));
    }
    if (shared_bits < 256) {
        const unsigned byte = shared_bits / 8, bit = 7 - shared_bits % 8;
        id[byte] = static_cast<std::uint8_t>((id[byte] & ~(1u << bit)) | (~self[byte] & (1u << bit)));
    }
    return id;
}

void c07_case(Ctx& c, Rng& r) {
    const PeerId self = r.arr<32>();
    KademliaTable table(self, Config{});
    std::vector<PeerId> pool;
    const unsigned npool = 4 + static_cast<unsigned>(r.below(60));
    const unsigned focus = static_cast<unsigned>(r.below(256));   // a bucket to overflow
    for (unsigned i = 0; i < npool; ++i) {
        const auto k = r.below(6);
        if (k == 0) pool.push_back(id_with_prefix(r, self, focus));
        else if (k == 1) pool.push_back(id_with_prefix(r, self, static_cast<unsigned>(r.below(256))));
        else if (k == 2) pool.push_back(id_with_prefix(r, self, 255 - static_cast<unsigned>(r.below(4))));
        else if (k == 3) pool.push_back(self);
        else pool.push_back(r.arr<32>());
    }
    const auto nops = 10 + r.below(80);
    std::uint64_t sig = hx::mix(npool, focus / 32);
    struct Last { std::string address; std::int64_t deadline; };
    for (std::uint64_t op = 0; op < nops; ++op) {
        const auto k = r.below(10);
        std::optional<std::pair<PeerId, Last>> just;
        if (k <= 3) {
            PeerContact pc{};
            pc.id = pool[r.below(pool.size())];
            pc.address = "h" + std::to_string(op) + ":" + std::to_string(1 + r.below(65000));
            const auto ttl = static_cast<std::int64_t>(r.chance(1, 5) ? 0 : 1 + r.below(500));
            pc.expires_at = std::chrono::steady_clock::now() + seconds(ttl);
            table.register_peer(pc);
            c.note("routing.registrations");
            if (ttl > 0) just = std::make_pair(pc.id, Last{pc.address, pc.expires_at.time_since_epoch().count()});
            sig = hx::mix(sig, 1);
        } else if (k <= 5) {
            PeerContact pc{};
            pc.id = pool[r.below(pool.size())];
            pc.address = "p" + std::to_string(op) + ":" + std::to_string(1 + r.below(65000));
            const auto ttl = static_cast<std::int64_t>(1 + r.below(500));
            table.add_contact(small_id(static_cast<unsigned>(r.below(3))), pc, seconds(ttl));
            c.note("routing.provider-additions");
            just = std::make_pair(pc.id, Last{pc.address, now_ns() + ttl * 1'000'000'000LL});
            sig = hx::mix(sig, 2);
        } else if (k == 6) {
            table.sweep_expired();
            sig = hx::mix(sig, 3);
        } else if (k == 7) {
            vclk::advance(nanoseconds(static_cast<std::int64_t>(r.below(r.chance(1, 2) ? 2'000'000'000ULL : 300'000'000'000ULL))));
            sig = hx::mix(sig, 4);
        } else {
            // query
            PeerId target;
            const auto tk = r.below(4);
            if (tk == 0) target = self;
            else if (tk == 1) target = pool[r.below(pool.size())];
            else target = r.arr<32>();
            static const std::size_t ks[] = {0, 1, 2, 3, 8, 16, 17, 20, 64, 1000};
            const std::size_t limit = ks[r.below(10)];
            const auto got = table.closest_peers(target, limit);
            const auto now = now_ns();
            std::vector<std::pair<std::array<std::uint8_t, 32>, PeerId>> want;
            for (auto& b : table.buckets_) for (auto& pc : b) if (pc.expires_at.time_since_epoch().count() > now) want.emplace_back(xor_dist(pc.id, target), pc.id);
            std::sort(want.begin(), want.end());
            const auto n = std::min(limit, want.size());
            c.note("routing.queries");
            if (n > 0) c.note("routing.queries-nonempty");
            std::string why;
            if (got.size() != n) why = "wrong-count";
            else for (std::size_t i = 0; i < n; ++i) {
                if (got[i].id != want[i].second) { why = "not-the-closest-or-wrong-order"; break; }
                if (i > 0 && !(xor_dist(got[i - 1].id, target) < xor_dist(got[i].id, target))) { why = "distance-not-strictly-increasing"; break; }
                if (got[i].expires_at.time_since_epoch().count() <= now) { why = "expired-contact-returned"; break; }
            }
            if (!why.empty()) c.violation("C07:closest:" + why, J().kv("op", op).kv("limit", limit).kv("held_unexpired", want.size()).kv("got", got.size()).str());
            sig = hx::mix(sig, 5 + (n > 0));
        }
        // structural invariants after every operation
        std::set<PeerId> seen;
        std::size_t held = 0;
        for (std::size_t bi = 0; bi < table.buckets_.size(); ++bi) {
            const auto& b = table.buckets_[bi];
            if (b.size() > 16) c.violation("C07:bucket:more-than-16", J().kv("op", op).kv("bucket", bi).kv("size", b.size()).str());
            c.note_max("routing.largest-bucket", b.size());
            for (auto& pc : b) {
                ++held;
                if (pc.id == self) c.violation("C07:bucket:holds-own-id", J().kv("op", op).str());
                if (ref_bucket_index(self, pc.id) != static_cast<int>(bi))
                    c.violation("C07:bucket:wrong-bucket", J().kv("op", op).kv("bucket", bi).kv("expected", ref_bucket_index(self, pc.id)).str());
                if (!seen.insert(pc.id).second) c.violation("C07:bucket:duplicate-entry", J().kv("op", op).kv("bucket", bi).str());
            }
        }
        c.note_max("routing.held-contacts", held);
        if (just && just->first != self) {
            int count = 0;
            bool fresh = false;
            for (auto& b : table.buckets_) for (auto& pc : b) if (pc.id == just->first) { ++count; fresh = pc.address == just->second.address && pc.expires_at.time_since_epoch().count() == just->second.deadline; }
            c.note("routing.refresh-checks");
            if (count != 1) c.violation("C07:refresh:not-exactly-one-entry", J().kv("op", op).kv("entries", count).str());
            else if (!fresh) c.violation("C07:refresh:stale-address-or-expiry", J().kv("op", op).str());
        }
    }
    c.sig(sig);
    if (c.cur_case % 499 == 0) c.sample(J().kv("pool", npool).kv("focus_prefix_bits", focus).kv("ops", nops).str());
}
HX_PROPERTY("C07", c07_case);

struct Init { Init() { vclk::freeze(); } } g_init;

}  // namespace

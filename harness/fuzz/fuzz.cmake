# libFuzzer targets (clang++-14).  The repository as a whole does not compile with clang 14 + libstdc++ 12
# (src/core/UpdateCheck.cpp: std::map of an incomplete type inside itself), so this flavour compiles only the
# translation units the decoders need, straight from the working tree, instead of add_subdirectory().
add_library(fzcore STATIC
  ${VERIF_REPO}/src/protocol/Message.cpp
  ${VERIF_REPO}/src/protocol/Manifest.cpp
  ${VERIF_REPO}/src/crypto/Sha256.cpp
  ${VERIF_REPO}/src/crypto/HmacSha256.cpp
  ${VERIF_REPO}/src/crypto/ChaCha20.cpp
  ${VERIF_REPO}/src/crypto/CryptoManager.cpp
  ${VERIF_REPO}/src/crypto/Shamir.cpp
  ${VERIF_REPO}/src/core/Types.cpp)
target_include_directories(fzcore PUBLIC ${VERIF_REPO}/include)
function(verif_fuzzer name)
  add_executable(${name} ${ARGN})
  target_link_libraries(${name} PRIVATE fzcore OpenSSL::Crypto)
  target_include_directories(${name} PRIVATE ${VERIF_REPO}/include ${VERIF_REPO} ${CMAKE_CURRENT_SOURCE_DIR} ${CMAKE_CURRENT_SOURCE_DIR}/fuzz)
  target_compile_options(${name} PRIVATE -Wno-unused-function)
  target_link_options(${name} PRIVATE -fsanitize=fuzzer,address,undefined)
endfunction()
verif_fuzzer(fz_message fuzz/fz_message.cpp)
verif_fuzzer(fz_manifest fuzz/fz_manifest.cpp)
verif_fuzzer(fz_stun fuzz/fz_stun.cpp tu_stun.cpp)

// Shared by the libFuzzer targets: an oracle violation prints one line and aborts, so that libFuzzer
// keeps the input as an artifact; the runner turns the line into a violation key.
#pragma once
#include <cstdio>
#include <cstdlib>
#include <cstring>
#include <memory>
#include <vector>
#include <cstdint>

[[noreturn]] inline void fz_violation(const char* key) {
    std::fprintf(stderr, "\nHXVIOLATION key=%s\n", key);
    std::fflush(stderr);
    std::abort();
}
// exact-size heap copy: one byte past the end is a red zone
struct FzExact {
    std::unique_ptr<std::uint8_t[]> p;
    std::size_t n;
    FzExact(const std::uint8_t* d, std::size_t len) : p(new std::uint8_t[len]), n(len) { if (n) std::memcpy(p.get(), d, n); }
};

// C18: decode_manifest returns or throws std::invalid_argument, nothing else; C17 on whatever it accepts:
// re-encoding and decoding again is stable.
#include <stdexcept>
#include <string>

#include "ephemeralnet/protocol/Manifest.hpp"
#include "fz_common.hpp"

using namespace ephemeralnet;

extern "C" int LLVMFuzzerTestOneInput(const std::uint8_t* data, std::size_t size) {
    std::string uri;
    if (size && (data[0] & 1)) uri = "eph://";
    uri.append(reinterpret_cast<const char*>(data + (size ? 1 : 0)), size ? size - 1 : 0);
    uri.shrink_to_fit();
    try {
        const auto m = protocol::decode_manifest(uri);
        try {
            const auto again = protocol::decode_manifest(protocol::encode_manifest(m));
            if (again.chunk_id != m.chunk_id || again.shards.size() != m.shards.size() || again.metadata != m.metadata ||
                again.discovery_hints.size() != m.discovery_hints.size() || again.fallback_hints.size() != m.fallback_hints.size())
                fz_violation("C17:roundtrip:accepted-manifest-not-stable");
        } catch (const std::length_error&) {
        } catch (const std::invalid_argument&) { fz_violation("C17:roundtrip:own-encoding-rejected"); }
    } catch (const std::invalid_argument&) {
    } catch (const std::exception&) { fz_violation("C18:decode:foreign-exception"); }
    return 0;
}

// C18: decode_manifest returns or throws std::invalid_argument, nothing else; C17 on whatever it accepts:
// re-encoding and decoding again is stable.
#include <stdexcept>
#include <string>

#include "ephemeralnet/protocol/Manifest.hpp"
#include "fz_common.hpp"

using namespace ephemeralnet;

extern "C" int LLVMFuzzerTestOneInput(const std::uint8_t* data, std::size_t size) {
    // first byte selects the framing: 0 = text as is, 1 = "eph://" + text, 2/3 = "eph://" + base64(bytes)
    std::string uri;
    const unsigned mode = size ? data[0] & 3u : 0u;
    if (mode) uri = "eph://";
    const std::uint8_t* body = data + (size ? 1 : 0);
    const std::size_t n = size ? size - 1 : 0;
    if (mode < 2) {
        uri.append(reinterpret_cast<const char*>(body), n);
    } else {
        static const char tbl[] = "ABCDEFGHIJKLMNOPQRSTUVWXYZabcdefghijklmnopqrstuvwxyz0123456789+/";
        for (std::size_t i = 0; i < n; i += 3) {
            const std::uint32_t a = body[i], b = i + 1 < n ? body[i + 1] : 0, c = i + 2 < n ? body[i + 2] : 0;
            const std::uint32_t v = (a << 16) | (b << 8) | c;
            uri.push_back(tbl[(v >> 18) & 63]);
            uri.push_back(tbl[(v >> 12) & 63]);
            uri.push_back(i + 1 < n ? tbl[(v >> 6) & 63] : '=');
            uri.push_back(i + 2 < n ? tbl[v & 63] : '=');
        }
    }
    uri.shrink_to_fit();
    try {
        const auto m = protocol::decode_manifest(uri);
        try {
            const auto again = protocol::decode_manifest(protocol::encode_manifest(m));
            if (again.chunk_id != m.chunk_id || again.shards.size() != m.shards.size() || again.metadata != m.metadata ||
                again.discovery_hints.size() != m.discovery_hints.size() || again.fallback_hints.size() != m.fallback_hints.size())
                fz_violation("C17:roundtrip:accepted-manifest-not-stable");
        } catch (const std::length_error&) {
        } catch (const std::invalid_argument&) { fz_violation("C17:roundtrip:own-encoding-rejected"); }
    } catch (const std::invalid_argument&) {
    } catch (const std::exception&) { fz_violation("C18:decode:foreign-exception"); }
    return 0;
}

// C16 (+C13): decode / decode_signed are total; re-encoding an accepted message is a prefix of the input
// (boolean bytes by truthiness); signed decoding accepts iff the reference MAC matches and the body decodes.
#include <openssl/hmac.h>

#include <span>

#include "ephemeralnet/protocol/Message.hpp"
#include "fz_common.hpp"

using namespace ephemeralnet;

extern "C" int LLVMFuzzerTestOneInput(const std::uint8_t* data, std::size_t size) {
    if (size < 1) return 0;
    // first byte selects the key length, the rest is the buffer
    const std::size_t klen = data[0] % 65;
    if (size < 1 + klen) return 0;
    FzExact key(data + 1, klen);
    FzExact buf(data + 1 + klen, size - 1 - klen);
    const std::span<const std::uint8_t> b(buf.p.get(), buf.n);
    const std::span<const std::uint8_t> k(key.p.get(), key.n);
    std::optional<protocol::Message> d;
    try {
        d = protocol::decode(b);
    } catch (...) { fz_violation("C16:decode:throws"); }
    if (d) {
        const auto re = protocol::encode(*d);
        if (re.size() > b.size()) fz_violation("C16:decode:reencoding-not-prefix");
        for (std::size_t i = 0; i < re.size(); ++i) {
            if (re[i] == b[i]) continue;
            const bool boolpos = i == 2 && (d->type == protocol::MessageType::Acknowledge || d->type == protocol::MessageType::HandshakeAck);
            if (boolpos && (re[i] != 0) == (b[i] != 0)) continue;
            fz_violation("C16:decode:reencoding-not-prefix");
        }
    }
    std::optional<protocol::Message> s;
    try {
        s = protocol::decode_signed(b, k);
    } catch (...) { fz_violation("C16:decode_signed:throws"); }
    bool want = false;
    if (b.size() >= 32) {
        unsigned char mac[32];
        unsigned len = 32;
        static const unsigned char dummy = 0;
        HMAC(EVP_sha256(), k.empty() ? &dummy : k.data(), static_cast<int>(k.size()), b.size() == 32 ? &dummy : b.data(), b.size() - 32, mac, &len);
        if (std::memcmp(mac, b.data() + b.size() - 32, 32) == 0) want = protocol::decode(b.first(b.size() - 32)).has_value();
    }
    if (s.has_value() != want) fz_violation(want ? "C13:decode_signed:rejects-valid" : "C13:decode_signed:accepts-invalid");
    // and a correctly signed version of the same body must agree with plain decoding
    {
        std::vector<std::uint8_t> signed_buf(b.begin(), b.end());
        unsigned char mac[32];
        unsigned len = 32;
        static const unsigned char dummy = 0;
        HMAC(EVP_sha256(), k.empty() ? &dummy : k.data(), static_cast<int>(k.size()), b.empty() ? &dummy : b.data(), b.size(), mac, &len);
        signed_buf.insert(signed_buf.end(), mac, mac + 32);
        FzExact sb(signed_buf.data(), signed_buf.size());
        const auto ds = protocol::decode_signed(std::span<const std::uint8_t>(sb.p.get(), sb.n), k);
        if (ds.has_value() != d.has_value()) fz_violation("C13:decode_signed:disagrees-with-decode-under-valid-mac");
    }
    return 0;
}

// C38: parse_update_metadata is total on arbitrary bytes (exact-size buffer).
#include <string>
#include <string_view>

#include "ephemeralnet/core/UpdateCheck.hpp"
#include "fz_common.hpp"

extern "C" int LLVMFuzzerTestOneInput(const std::uint8_t* data, std::size_t size) {
    FzExact ex(data, size);
    ephemeralnet::update::Metadata md{};
    std::string err;
    try {
        (void)ephemeralnet::update::parse_update_metadata(std::string_view(reinterpret_cast<const char*>(ex.p.get()), ex.n), md, err);
    } catch (...) { fz_violation("C38:meta:throws"); }
    return 0;
}

// C33: parse_stun_response never reads outside the datagram; a reported address must be backed by a
// well-formed attribute inside the declared length of a matching Binding Success response.
#include <arpa/inet.h>

#include <array>
#include <string>

#include "fz_common.hpp"
#include "tu_stun.hpp"

extern "C" int LLVMFuzzerTestOneInput(const std::uint8_t* data, std::size_t size) {
    if (size < 12 || size > 12 + 512) return 0;
    std::array<std::uint8_t, 12> tx{};
    std::memcpy(tx.data(), data, 12);
    FzExact ex(data + 12, size - 12);
    std::string addr;
    std::uint16_t port = 0;
    const bool got = tu_stun::parse(ex.p.get(), ex.n, tx, addr, port);
    if (!got) return 0;
    const auto* d = ex.p.get();
    const std::size_t n = ex.n;
    if (n < 20 || ((d[0] << 8) | d[1]) != 0x0101 || std::memcmp(d + 8, tx.data(), 12) != 0) fz_violation("C33:stun:address-from-non-matching-response");
    const std::size_t end = 20 + static_cast<std::size_t>((d[2] << 8) | d[3]);
    if (end > n) fz_violation("C33:stun:address-from-non-matching-response");
    bool backed = false;
    for (std::size_t pos = 20; pos + 4 <= end;) {
        const unsigned at = (d[pos] << 8) | d[pos + 1];
        const std::size_t al = (d[pos + 2] << 8) | d[pos + 3];
        if (pos + 4 + al > end) break;
        if ((at == 0x0001 || at == 0x0020) && al >= 4) {
            const int fam = d[pos + 5];
            const std::uint8_t* v = d + pos + 4;
            std::uint16_t p = static_cast<std::uint16_t>((v[2] << 8) | v[3]);
            if (at == 0x0020) p ^= 0x2112;
            char buf[INET6_ADDRSTRLEN] = {0};
            static const std::uint8_t cookie[4] = {0x21, 0x12, 0xA4, 0x42};
            if (fam == 1 && al >= 8) {
                std::uint8_t a[4];
                for (int i = 0; i < 4; ++i) a[i] = v[4 + i] ^ (at == 0x0020 ? cookie[i] : 0);
                inet_ntop(AF_INET, a, buf, sizeof buf);
                if (addr == buf && p == port) backed = true;
            } else if (fam == 2 && al >= 20) {
                std::uint8_t a[16];
                for (int i = 0; i < 16; ++i) a[i] = v[4 + i] ^ (at == 0x0020 ? (i < 4 ? cookie[i] : tx[i - 4]) : 0);
                inet_ntop(AF_INET6, a, buf, sizeof buf);
                if (addr == buf && p == port) backed = true;
            }
        }
        pos += 4 + ((al + 3) & ~std::size_t{3});
    }
    if (!backed) fz_violation("C33:stun:address-from-malformed-attribute");
    return 0;
}

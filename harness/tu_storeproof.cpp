#include "src/security/StoreProof.cpp"

#include "tu_node.hpp"

namespace tu_storeproof {
std::size_t count_leading_zero_bits(std::span<const std::uint8_t> digest) { return ephemeralnet::security::count_leading_zero_bits(digest); }
std::array<std::uint8_t, 32> digest(const ephemeralnet::security::StoreWorkInput& input, std::uint64_t nonce) {
    return ephemeralnet::security::pow_digest(input, nonce);
}
}  // namespace tu_storeproof

#pragma once
#include <cstdint>
namespace tu_shamir {
std::uint8_t mul(std::uint8_t a, std::uint8_t b);
std::uint8_t div(std::uint8_t a, std::uint8_t b);   // throws std::invalid_argument on b == 0
std::uint8_t add(std::uint8_t a, std::uint8_t b);
}

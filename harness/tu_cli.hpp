#pragma once
// Wrappers around anonymous-namespace functions of the repository's src/main.cpp
// (compiled from the working tree with main renamed).
#include <array>
#include <cstdint>
#include <optional>
#include <span>
#include <string>
#include <vector>

#include "ephemeralnet/Types.hpp"
#include "ephemeralnet/protocol/Manifest.hpp"
#include "ephemeralnet/protocol/Message.hpp"

namespace tu_cli {
std::optional<ephemeralnet::ChunkData> decrypt_chunk(const ephemeralnet::protocol::Manifest& manifest,
                                                     const ephemeralnet::protocol::ChunkPayload& payload);
bool transport_pow_valid(const ephemeralnet::PeerId& initiator, const ephemeralnet::PeerId& responder,
                         std::uint32_t initiator_public, std::uint64_t nonce, std::uint8_t difficulty);
std::optional<std::uint64_t> compute_transport_pow(const ephemeralnet::PeerId& initiator, const ephemeralnet::PeerId& responder,
                                                   std::uint32_t initiator_public, std::uint8_t difficulty);
std::array<std::uint8_t, 32> transport_digest(const ephemeralnet::PeerId& initiator, const ephemeralnet::PeerId& responder,
                                              std::uint32_t initiator_public, std::uint64_t nonce);
std::size_t count_leading_zero_bits(std::span<const std::uint8_t> digest);
int cli_main(int argc, char** argv);
}  // namespace tu_cli

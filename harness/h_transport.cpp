// Real loopback transport monitors:
//   C14 sessions deliver exactly what was sent (two real nodes + a raw-socket peer that completed a genuine handshake)
//   C20s inbound handshake admission over real TCP (ACK / EOF observation)
//   C35t hostile transport bytes before and after a genuine handshake, stall probe
//   C39 key rotation vs. session state
#include <arpa/inet.h>
#include <netinet/in.h>
#include <netinet/tcp.h>
#include <poll.h>
#include <signal.h>
#include <sys/socket.h>
#include <unistd.h>

#include <algorithm>
#include <atomic>
#include <map>
#include <mutex>
#include <set>
#include <thread>

#include "common/gen_manifest.hpp"
#include "common/hx.hpp"
#include "common/node_fx.hpp"
#include "common/ref_crypto.hpp"
#include "common/vclock.hpp"
#include "ephemeralnet/network/KeyExchange.hpp"

using namespace ephemeralnet;
using hx::Ctx;
using hx::J;
using hx::Rng;
using std::chrono::nanoseconds;
using std::chrono::seconds;

namespace {

constexpr std::int64_t NS = 1'000'000'000LL;
constexpr std::size_t MiB = 1024 * 1024;

std::int64_t real_ms() {
    timespec ts{};
    clock_gettime(CLOCK_MONOTONIC, &ts);
    return static_cast<std::int64_t>(ts.tv_sec) * 1000 + ts.tv_nsec / 1000000;
}
template <class P>
bool wait_real(P pred, int timeout_ms) {
    const auto t0 = real_ms();
    while (!pred()) {
        if (real_ms() - t0 > timeout_ms) return false;
        ::usleep(300);
    }
    return true;
}

std::size_t lz_ref(std::span<const std::uint8_t> d) {
    std::size_t n = 0;
    for (auto b : d) for (int bit = 7; bit >= 0; --bit) { if (b & (1u << bit)) return n; ++n; }
    return n;
}

Config base_config(Rng& r) {
    Config cfg{};
    cfg.identity_seed = static_cast<std::uint32_t>(r.next());
    cfg.announce_pow_difficulty = 0;
    cfg.handshake_pow_difficulty = 0;
    cfg.store_pow_difficulty = 0;
    cfg.nat_stun_enabled = false;
    cfg.relay_enabled = false;
    cfg.shard_threshold = 2;
    cfg.shard_total = 3;
    cfg.handshake_cooldown = seconds(0);
    cfg.key_rotation_interval = seconds(3600);
    return cfg;
}

struct Received { std::array<std::uint8_t, 32> digest; std::size_t len; };
struct LiveNode {
    std::unique_ptr<Node> node;
    std::mutex m;
    std::vector<Received> received;
    LiveNode(const PeerId& id, const Config& cfg) : node(std::make_unique<Node>(id, cfg)) {
        node->set_message_handler([this](const network::TransportMessage& msg) {
            Received rec{ref::sha256(std::span<const std::uint8_t>(msg.payload.data(), msg.payload.size())), msg.payload.size()};
            std::scoped_lock lock(m);
            received.push_back(rec);
        });
        slot = fx::PortPool::get().start(*node);
    }
    int slot{-1};
    ~LiveNode() { fx::stop_and_destroy(node); fx::PortPool::get().release(slot); }
    std::size_t count() { std::scoped_lock lock(m); return received.size(); }
};

bool mutual_handshake(Node& a, Node& b) {
    const auto wa = a.generate_handshake_work(b.id());
    const auto wb = b.generate_handshake_work(a.id());
    if (!wa || !wb) return false;
    return a.perform_handshake(b.id(), b.public_identity(), *wb) && b.perform_handshake(a.id(), a.public_identity(), *wa);
}

// ---- raw TCP peer -------------------------------------------------------------------------------------------
int dial(std::uint16_t port) {
    int fd = ::socket(AF_INET, SOCK_STREAM, 0);
    sockaddr_in a{};
    a.sin_family = AF_INET;
    a.sin_port = htons(port);
    inet_pton(AF_INET, "127.0.0.1", &a.sin_addr);
    if (::connect(fd, reinterpret_cast<sockaddr*>(&a), sizeof a) != 0) { ::close(fd); return -1; }
    int one = 1;
    setsockopt(fd, IPPROTO_TCP, TCP_NODELAY, &one, sizeof one);
    return fd;
}
bool wr(int fd, const void* p, std::size_t n) {
    const auto* b = static_cast<const char*>(p);
    while (n) { const auto w = ::send(fd, b, n, MSG_NOSIGNAL); if (w <= 0) return false; b += w; n -= static_cast<std::size_t>(w); }
    return true;
}
// 1 = got n bytes, 0 = EOF/reset, -1 = timeout
int rd(int fd, void* p, std::size_t n, int timeout_ms) {
    auto* b = static_cast<char*>(p);
    const auto t0 = real_ms();
    while (n) {
        const int left = timeout_ms - static_cast<int>(real_ms() - t0);
        if (left <= 0) return -1;
        pollfd pf{fd, POLLIN, 0};
        const int pr = poll(&pf, 1, left);
        if (pr == 0) return -1;
        const auto g = ::recv(fd, b, n, 0);
        if (g <= 0) return 0;
        b += g; n -= static_cast<std::size_t>(g);
    }
    return 1;
}
void put_be32(std::vector<std::uint8_t>& v, std::uint32_t x) { v.push_back(x >> 24); v.push_back(x >> 16); v.push_back(x >> 8); v.push_back(x); }

struct RawPeer {
    PeerId id{};
    std::uint32_t scalar{0}, pub{0};
    int fd{-1};
    std::array<std::uint8_t, 32> key{};
    ~RawPeer() { if (fd >= 0) ::close(fd); }
};

std::array<std::uint8_t, 32> derive_session_key(std::uint32_t my_scalar, std::uint32_t my_pub, std::uint32_t their_pub) {
    const auto shared = network::KeyExchange::derive_shared_secret(my_scalar, their_pub);
    std::array<std::uint32_t, 2> o{my_pub, their_pub};
    std::sort(o.begin(), o.end());
    std::uint8_t mat[8];
    for (int i = 0; i < 2; ++i) for (int b = 0; b < 4; ++b) mat[i * 4 + b] = static_cast<std::uint8_t>(o[i] >> ((3 - b) * 8));
    return ref::hmac_sha256(shared.bytes, std::span<const std::uint8_t>(mat, 8));
}

// reference PoW search over the handshake surface (encoding written from the protocol: length-prefixed ids, u64 key, u64 nonce)
std::array<std::uint8_t, 32> hs_digest(const PeerId& initiator, const PeerId& responder, std::uint32_t pub, std::uint64_t nonce) {
    std::vector<std::uint8_t> m;
    auto be64 = [&](std::uint64_t v) { for (int s = 56; s >= 0; s -= 8) m.push_back(static_cast<std::uint8_t>(v >> s)); };
    be64(32); m.insert(m.end(), initiator.begin(), initiator.end());
    be64(32); m.insert(m.end(), responder.begin(), responder.end());
    be64(pub);
    be64(nonce);
    return ref::sha256(m);
}
std::uint64_t solve_pow(const PeerId& initiator, const PeerId& responder, std::uint32_t pub, std::uint8_t d, std::uint64_t start = 0) {
    for (std::uint64_t n = start;; ++n) if (d == 0 || lz_ref(hs_digest(initiator, responder, pub, n)) >= d) return n;
}

enum class HsResult { Ack, Eof, Timeout, BadAck };
// sends identity + handshake frame, then waits for the encrypted, signed ACK
HsResult do_handshake(RawPeer& p, Node& node, std::uint32_t offered_pub, std::uint64_t nonce, std::uint8_t version = 4, int timeout_ms = 8000) {
    p.fd = dial(node.transport_port());
    if (p.fd < 0) return HsResult::Eof;
    wr(p.fd, p.id.data(), 32);
    protocol::Message m{};
    m.version = 4;
    m.type = protocol::MessageType::TransportHandshake;
    m.payload = protocol::TransportHandshakePayload{offered_pub, nonce, version};
    const auto enc = protocol::encode(m);
    std::vector<std::uint8_t> frame;
    put_be32(frame, static_cast<std::uint32_t>(enc.size()));
    frame.insert(frame.end(), enc.begin(), enc.end());
    wr(p.fd, frame.data(), frame.size());
    std::uint8_t hdr[16];
    const int g = rd(p.fd, hdr, 16, timeout_ms);
    if (g == 0) return HsResult::Eof;
    if (g < 0) return HsResult::Timeout;
    const std::uint32_t len = (std::uint32_t(hdr[12]) << 24) | (std::uint32_t(hdr[13]) << 16) | (std::uint32_t(hdr[14]) << 8) | hdr[15];
    if (len == 0 || len > 4096) return HsResult::BadAck;
    std::vector<std::uint8_t> ct(len);
    if (rd(p.fd, ct.data(), len, timeout_ms) != 1) return HsResult::Eof;
    p.key = derive_session_key(p.scalar, p.pub, node.public_identity());
    const auto pt = ref::chacha20_rfc(p.key.data(), hdr, 0, ct);
    const auto ack = protocol::decode_signed(pt, p.key);
    if (!ack || ack->type != protocol::MessageType::HandshakeAck) return HsResult::BadAck;
    const auto* ap = std::get_if<protocol::HandshakeAckPayload>(&ack->payload);
    return ap && ap->accepted ? HsResult::Ack : HsResult::BadAck;
}
RawPeer make_peer(Rng& r) {
    RawPeer p;
    p.id = r.arr<32>();
    p.scalar = static_cast<std::uint32_t>(r.range(2, network::KeyExchange::kPrime - 2));
    p.pub = network::KeyExchange::compute_public(p.scalar);
    return p;
}
std::vector<std::uint8_t> seal_frame(const std::array<std::uint8_t, 32>& key, Rng& r, std::span<const std::uint8_t> plaintext) {
    std::vector<std::uint8_t> f;
    const auto nonce = r.arr<12>();
    f.insert(f.end(), nonce.begin(), nonce.end());
    put_be32(f, static_cast<std::uint32_t>(plaintext.size()));
    const auto ct = ref::chacha20_rfc(key.data(), nonce.data(), 0, plaintext);
    f.insert(f.end(), ct.begin(), ct.end());
    return f;
}
bool expect_eof(int fd, int timeout_ms) {
    char b[4096];
    const auto t0 = real_ms();
    while (real_ms() - t0 < timeout_ms) {
        pollfd pf{fd, POLLIN | POLLRDHUP, 0};
        if (poll(&pf, 1, 200) <= 0) continue;
        const auto g = ::recv(fd, b, sizeof b, 0);
        if (g <= 0) return true;
    }
    return false;
}

// ------------------------------------------------------------------------------------ C14
void c14_case(Ctx& c, Rng& r) {
    vclk::real_mode();
    Config ca = base_config(r), cb = base_config(r);
    const auto mode = c.cur_case % 3;
    std::uint64_t sig = mode;
    if (mode != 2) {
        // (a) two real nodes
        LiveNode A(r.arr<32>(), ca), B(r.arr<32>(), cb);
        if (!mutual_handshake(*A.node, *B.node)) { c.violation("harness:C14:handshake-failed", "{}"); return; }
        if (!A.node->connect_peer(B.node->id(), "127.0.0.1", B.node->transport_port())) { c.violation("harness:C14:connect-failed", "{}"); return; }
        const auto nmsg = 1 + r.below(mode == 0 ? 200 : 12);
        std::vector<Received> sent;
        std::size_t oversized = 0;
        for (std::uint64_t i = 0; i < nmsg; ++i) {
            std::size_t len;
            static const std::size_t small[] = {0, 1, 63, 64, 65, 127, 128, 1000, 4096};
            if (mode == 0) len = r.chance(1, 2) ? small[r.below(9)] : r.below(3000);
            else { static const std::size_t big[] = {MiB - 1, MiB, MiB + 1, MiB + 1, 0, 1, 65536, MiB, 2 * MiB}; len = big[r.below(9)]; }
            const auto payload = r.bytes(len);
            const bool ok = A.node->send_secure(B.node->id(), payload);
            c.note("sessions.sends");
            if (len > MiB) {
                ++oversized;
                c.note("sessions.oversized-sends");
                if (ok) c.violation("C14:send:payload-above-1MiB-accepted", J().kv("len", len).str());
            } else {
                if (len == MiB) c.note("sessions.exactly-1MiB-sends");
                if (!ok) c.violation("C14:send:payload-within-limit-refused", J().kv("len", len).str());
                else sent.push_back(Received{ref::sha256(std::span<const std::uint8_t>(payload.data(), payload.size())), len});
            }
            sig = hx::mix(sig, len);
        }
        if (!wait_real([&] { return B.count() >= sent.size(); }, 30000)) {
            c.violation("C14:delivery:messages-lost", J().kv("sent", sent.size()).kv("received", B.count()).str());
        } else {
            ::usleep(20000);   // anything extra (duplicates, oversized) would arrive right behind
            std::scoped_lock lock(B.m);
            c.note("sessions.messages-delivered", B.received.size());
            if (B.received.size() != sent.size()) c.violation("C14:delivery:extra-messages-delivered", J().kv("sent", sent.size()).kv("received", B.received.size()).kv("oversized_attempts", oversized).str());
            else for (std::size_t i = 0; i < sent.size(); ++i)
                if (B.received[i].len != sent[i].len || B.received[i].digest != sent[i].digest) { c.violation("C14:delivery:payload-changed-or-reordered", J().kv("index", i).kv("sent_len", sent[i].len).kv("got_len", B.received[i].len).str()); break; }
        }
        c.note("sessions.node-pairs");
    } else {
        // (b) raw peer after a genuine handshake: wire format of what the node emits, and hand-made frames towards the node
        LiveNode A(r.arr<32>(), ca);
        auto p = make_peer(r);
        const auto hr = do_handshake(p, *A.node, p.pub, 0);
        if (hr != HsResult::Ack) { c.violation("harness:C14:raw-handshake-failed", J().kv("result", static_cast<int>(hr)).str()); return; }
        if (!wait_real([&] { return A.node->sessions_.is_connected(p.id); }, 5000)) { c.violation("harness:C14:session-not-registered", "{}"); return; }
        // node -> wire
        std::set<std::array<std::uint8_t, 12>> nonces;
        const auto nmsg = 1 + r.below(40);
        for (std::uint64_t i = 0; i < nmsg; ++i) {
            static const std::size_t sizes[] = {0, 1, 16, 63, 64, 65, 300, 5000};
            const auto payload = r.bytes(r.chance(1, 2) ? sizes[r.below(8)] : r.below(2000));
            if (!A.node->send_secure(p.id, payload)) { c.violation("C14:send:payload-within-limit-refused", J().kv("len", payload.size()).str()); break; }
            std::uint8_t hdr[16];
            if (rd(p.fd, hdr, 16, 10000) != 1) { c.violation("C14:wire:frame-header-missing", "{}"); break; }
            const std::uint32_t len = (std::uint32_t(hdr[12]) << 24) | (std::uint32_t(hdr[13]) << 16) | (std::uint32_t(hdr[14]) << 8) | hdr[15];
            c.note("wire.frames-observed");
            if (len != payload.size()) { c.violation("C14:wire:length-field-differs-from-payload", J().kv("len", len).kv("payload", payload.size()).str()); break; }
            std::vector<std::uint8_t> ct(len);
            if (len && rd(p.fd, ct.data(), len, 10000) != 1) { c.violation("C14:wire:frame-body-missing", "{}"); break; }
            std::array<std::uint8_t, 12> nonce;
            std::copy(hdr, hdr + 12, nonce.begin());
            if (!nonces.insert(nonce).second) c.violation("C14:wire:nonce-reused", J().kv("frame", i).str());
            if (ct != ref::chacha20_rfc(p.key.data(), hdr, 0, payload)) c.violation("C14:wire:ciphertext-is-not-chacha20-of-payload", J().kv("len", len).str());
            if (len >= 16 && ct == payload) c.violation("C14:wire:plaintext-on-the-wire", J().kv("len", len).str());
            sig = hx::mix(sig, len);
        }
        // the same from several threads of the node at once (tick loop, control handlers and session readers all send):
        // frames stay whole, and nonces stay fresh across threads
        {
            const int nthreads = 2 + static_cast<int>(r.below(3));
            const int per = 2 + static_cast<int>(r.below(4));
            std::vector<std::vector<std::vector<std::uint8_t>>> payloads(nthreads);
            for (int t = 0; t < nthreads; ++t) for (int i = 0; i < per; ++i) { auto pl = r.bytes(24 + r.below(400)); pl[0] = static_cast<std::uint8_t>(t); pl[1] = static_cast<std::uint8_t>(i); payloads[t].push_back(std::move(pl)); }
            std::vector<std::thread> th;
            std::atomic<int> refused{0};
            for (int t = 0; t < nthreads; ++t) th.emplace_back([&, t] { for (auto& pl : payloads[t]) if (!A.node->send_secure(p.id, pl)) refused.fetch_add(1); });
            for (auto& t : th) t.join();
            if (refused.load()) c.violation("C14:send:payload-within-limit-refused", J().kv("mode", "threads-to-raw-peer").kv("refused", refused.load()).str());
            std::vector<std::size_t> next(nthreads, 0);
            for (int k = 0; k < nthreads * per - refused.load(); ++k) {
                std::uint8_t hdr[16];
                if (rd(p.fd, hdr, 16, 10000) != 1) { c.violation("C14:wire:frame-header-missing", J().kv("mode", "threads-to-raw-peer").str()); break; }
                const std::uint32_t len = (std::uint32_t(hdr[12]) << 24) | (std::uint32_t(hdr[13]) << 16) | (std::uint32_t(hdr[14]) << 8) | hdr[15];
                if (len > 4096) { c.violation("C14:wire:length-field-differs-from-payload", J().kv("mode", "threads-to-raw-peer").kv("len", len).str()); break; }
                std::vector<std::uint8_t> ct(len);
                if (len && rd(p.fd, ct.data(), len, 10000) != 1) { c.violation("C14:wire:frame-body-missing", J().kv("mode", "threads-to-raw-peer").str()); break; }
                c.note("wire.frames-observed");
                c.note("wire.frames-from-concurrent-threads");
                std::array<std::uint8_t, 12> nonce;
                std::copy(hdr, hdr + 12, nonce.begin());
                if (!nonces.insert(nonce).second) c.violation("C14:wire:nonce-reused", J().kv("mode", "threads-to-raw-peer").kv("frame", k).kv("threads", nthreads).str());
                const auto pt = ref::chacha20_rfc(p.key.data(), hdr, 0, ct);   // the cipher is its own inverse
                const int t = pt.size() >= 2 ? pt[0] : -1;
                if (t < 0 || t >= nthreads || next[t] >= payloads[t].size() || pt != payloads[t][next[t]]) { c.violation("C14:wire:ciphertext-is-not-chacha20-of-payload", J().kv("mode", "threads-to-raw-peer").kv("len", len).str()); break; }
                ++next[t];
            }
        }
        // wire -> node: well-formed frames are delivered, an oversized announcement ends the session
        const auto before = A.count();
        const auto payload = r.bytes(r.chance(1, 4) ? MiB : r.below(3000));
        const auto frame = seal_frame(p.key, r, payload);
        wr(p.fd, frame.data(), frame.size());
        if (!wait_real([&] { return A.count() > before; }, 15000)) c.violation("C14:delivery:hand-made-frame-not-delivered", J().kv("len", payload.size()).str());
        else {
            std::scoped_lock lock(A.m);
            if (A.received.back().len != payload.size() || A.received.back().digest != ref::sha256(std::span<const std::uint8_t>(payload.data(), payload.size()))) c.violation("C14:delivery:hand-made-frame-changed", "{}");
            c.note("wire.hand-made-frames-delivered");
        }
        {
            std::vector<std::uint8_t> evil = r.bytes(12);
            static const std::uint32_t lens[] = {static_cast<std::uint32_t>(MiB + 1), 0x7fffffffu, 0xffffffffu, static_cast<std::uint32_t>(2 * MiB), 0x80000000u};
            put_be32(evil, lens[r.below(5)]);
            wr(p.fd, evil.data(), evil.size());   // the body is never sent
            c.note("wire.oversized-length-announcements");
            const auto cnt = A.count();
            if (!expect_eof(p.fd, 10000)) c.violation("C14:oversized-frame:session-not-ended", J().kv("announced", (evil[12] << 24) | (evil[13] << 16) | (evil[14] << 8) | evil[15]).str());
            if (A.count() != cnt) c.violation("C14:oversized-frame:something-was-delivered", "{}");
        }
    }
    c.sig(sig);
    if (c.cur_case % 7 == 0) c.sample(J().kv("mode", mode == 0 ? "burst of small messages between two nodes" : (mode == 1 ? "messages around 1 MiB between two nodes" : "raw peer: wire format and hand-made frames")).str());
}
HX_PROPERTY("C14", c14_case);

// ------------------------------------------------------------------------------------ C14 (concurrent senders)
// The daemon has several threads that send to the same peer: the tick loop and control handlers (under the node
// mutex) and every session reader thread answering a request (no daemon-level lock).  Here 2..4 threads of node A
// send to B at the same time, large payloads included and B's handler slowed down so that the socket fills up.
void c14m_case(Ctx& c, Rng& r) {
    vclk::real_mode();
    Config ca = base_config(r), cb = base_config(r);
    struct SlowNode {
        std::unique_ptr<Node> node;
        std::mutex m;
        std::vector<Received> received;
        std::atomic<unsigned> delay_us{0};
        SlowNode(const PeerId& id, const Config& cfg) : node(std::make_unique<Node>(id, cfg)) {
            node->set_message_handler([this](const network::TransportMessage& msg) {
                Received rec{ref::sha256(std::span<const std::uint8_t>(msg.payload.data(), msg.payload.size())), msg.payload.size()};
                if (const auto d = delay_us.load()) ::usleep(d);
                std::scoped_lock lock(m);
                received.push_back(rec);
            });
            slot = fx::PortPool::get().start(*node);
        }
        int slot{-1};
        ~SlowNode() { fx::stop_and_destroy(node); fx::PortPool::get().release(slot); }
        std::size_t count() { std::scoped_lock lock(m); return received.size(); }
    };
    LiveNode A(r.arr<32>(), ca);
    SlowNode B(r.arr<32>(), cb);
    if (!mutual_handshake(*A.node, *B.node)) { c.violation("harness:C14:handshake-failed", "{}"); return; }
    if (!A.node->connect_peer(B.node->id(), "127.0.0.1", B.node->transport_port())) { c.violation("harness:C14:connect-failed", "{}"); return; }
    const int nthreads = 2 + static_cast<int>(r.below(3));
    const auto per_thread = 3 + r.below(10);
    const unsigned receiver_delay = r.chance(1, 2) ? static_cast<unsigned>(r.below(3000)) : 0;
    B.delay_us.store(receiver_delay);
    struct Sent { std::array<std::uint8_t, 32> digest; std::size_t len; bool ok; };
    std::vector<std::vector<Sent>> sent(nthreads);
    std::vector<std::uint64_t> seeds;
    for (int t = 0; t < nthreads; ++t) seeds.push_back(r.next());
    std::atomic<int> go{0};
    std::vector<std::thread> th;
    for (int t = 0; t < nthreads; ++t) {
        th.emplace_back([&, t] {
            Rng q(seeds[t]);
            go.fetch_add(1);
            while (go.load() < nthreads) ::sched_yield();
            for (std::uint64_t i = 0; i < per_thread; ++i) {
                std::size_t len;
                const auto k = q.below(6);
                if (k == 0) len = MiB;
                else if (k <= 2) len = 200000 + q.below(800000);
                else if (k == 3) len = q.below(64);
                else len = 1000 + q.below(60000);
                auto payload = q.bytes(len);
                if (len >= 9) { payload[0] = static_cast<std::uint8_t>(t); for (int b = 0; b < 8; ++b) payload[1 + b] = static_cast<std::uint8_t>(i >> (8 * b)); }
                const bool ok = A.node->send_secure(B.node->id(), payload);
                sent[t].push_back(Sent{ref::sha256(std::span<const std::uint8_t>(payload.data(), payload.size())), len, ok});
                if (q.chance(1, 3)) ::sched_yield();
            }
        });
    }
    for (auto& t : th) t.join();
    std::size_t total = 0, bytes = 0;
    for (auto& v : sent) for (auto& s : v) { c.note("concurrent.sends"); if (s.ok) { ++total; bytes += s.len; } else c.violation("C14:send:payload-within-limit-refused", J().kv("len", s.len).kv("mode", "concurrent").str()); }
    c.note("concurrent.bytes-sent", bytes);
    B.delay_us.store(0);
    const bool all = wait_real([&] { return B.count() >= total; }, 60000);
    ::usleep(20000);
    std::scoped_lock lock(B.m);
    c.note("concurrent.messages-delivered", B.received.size());
    // attribute by digest (payloads are random, 9+ byte payloads also carry thread and sequence)
    std::map<std::array<std::uint8_t, 32>, std::pair<int, std::size_t>> where;
    for (int t = 0; t < nthreads; ++t) for (std::size_t i = 0; i < sent[t].size(); ++i) if (sent[t][i].len >= 9) where[sent[t][i].digest] = {t, i};
    std::vector<std::size_t> next(nthreads, 0);
    std::size_t foreign = 0, misordered = 0, matched = 0, tiny = 0;
    for (auto& rec : B.received) {
        const auto it = where.find(rec.digest);
        if (it == where.end()) { if (rec.len < 9) ++tiny; else ++foreign; continue; }
        ++matched;
        const auto [t, i] = it->second;
        // skip over this thread's tiny payloads (not attributable)
        while (next[t] < sent[t].size() && sent[t][next[t]].len < 9) ++next[t];
        if (i != next[t]) ++misordered;
        next[t] = i + 1;
    }
    std::size_t tiny_sent = 0;
    for (auto& v : sent) for (auto& s : v) if (s.len < 9) ++tiny_sent;
    if (foreign) c.violation("C14:delivery:payload-changed-or-reordered", J().kv("mode", "concurrent").kv("delivered_payloads_nobody_sent", foreign).kv("threads", nthreads).str());
    else if (!all || matched + tiny < total) c.violation("C14:delivery:messages-lost", J().kv("mode", "concurrent").kv("sent", total).kv("received", B.received.size()).kv("threads", nthreads).str());
    else if (B.received.size() != total || tiny != tiny_sent) c.violation("C14:delivery:extra-messages-delivered", J().kv("mode", "concurrent").kv("sent", total).kv("received", B.received.size()).str());
    else if (misordered) c.violation("C14:delivery:payload-changed-or-reordered", J().kv("mode", "concurrent").kv("out_of_per_sender_order", misordered).str());
    c.note("concurrent.node-pairs");
    c.sig(hx::mix(hx::mix(nthreads, per_thread), bytes));
    if (c.cur_case % 5 == 0) c.sample(J().kv("mode", "concurrent senders").kv("threads", nthreads).kv("messages", total).kv("bytes", bytes).kv("receiver_delay_us", receiver_delay).str());
}
HX_PROPERTY("C14m", c14m_case);

// ------------------------------------------------------------------------------------ C20 (socket level)
void c20s_case(Ctx& c, Rng& r) {
    vclk::offset_mode();
    Config cfg = base_config(r);
    static const std::int64_t cds[] = {0, 5, 60};
    cfg.handshake_cooldown = seconds(cds[r.below(3)]);
    const auto d = static_cast<std::uint8_t>(r.chance(1, 3) ? 0 : 2 + r.below(6));
    cfg.handshake_pow_difficulty = d;
    LiveNode A(r.arr<32>(), cfg);
    auto base = make_peer(r);
    const auto good_nonce = solve_pow(base.id, A.node->id(), base.pub, d, r.below(1000));
    const auto nsteps = 2 + r.below(5);
    std::uint64_t sig = hx::mix(d, cfg.handshake_cooldown.count());
    std::unique_ptr<RawPeer> live;   // the connection of the last acknowledged handshake, kept open by the harness
    for (std::uint64_t s = 0; s < nsteps; ++s) {
        auto pp = std::make_unique<RawPeer>();
        RawPeer& p = *pp;
        p.id = base.id; p.scalar = base.scalar; p.pub = base.pub;
        std::uint32_t offered = base.pub;
        std::uint64_t nonce = good_nonce;
        const auto kind = r.below(5);
        const char* kname = "valid";
        if (kind == 1) { static const std::uint32_t bad[] = {0u, 1u, network::KeyExchange::kPrime, 0xffffffffu}; offered = bad[r.below(4)]; kname = "invalid-key"; }
        else if (kind == 2) { nonce = good_nonce + 1 + r.below(1000); kname = "other-nonce"; }
        else if (kind == 3) { p.scalar = base.scalar + 7 + static_cast<std::uint32_t>(r.below(1000)); p.pub = network::KeyExchange::compute_public(p.scalar); offered = p.pub; kname = "different-key-same-peer"; }
        else if (kind == 4) { p.scalar = static_cast<std::uint32_t>(r.range(2, 100000)); p.pub = network::KeyExchange::compute_public(p.scalar); offered = p.pub; nonce = solve_pow(p.id, A.node->id(), offered, d); kname = "different-key-with-its-own-valid-pow"; }
        const bool key_ok = offered > 1 && offered < network::KeyExchange::kPrime;
        const bool pow_ok = d == 0 || lz_ref(hs_digest(p.id, A.node->id(), offered, nonce)) >= d;
        const bool want = key_ok && pow_ok;
        const auto key_before = A.node->session_key(p.id);
        const bool had_live_session = live && A.node->sessions_.is_connected(p.id);
        const auto rep_before = A.node->reputation_score(p.id);
        const auto stats_before = A.node->pow_statistics();
        const auto hr = do_handshake(p, *A.node, offered, nonce);
        c.note(std::string("socket-handshakes.") + kname);
        const auto desc = [&] { return J().kv("step", s).kv("kind", kname).kv("difficulty", d).kv("cooldown_s", cfg.handshake_cooldown.count()).kv("result", static_cast<int>(hr)); };
        if (hr == HsResult::Timeout) { c.violation("C20:socket:no-ack-and-no-close", desc().str()); continue; }
        const bool got = hr == HsResult::Ack;
        c.note(want ? "socket-handshakes.admissible" : "socket-handshakes.inadmissible");
        if (got && !want) c.violation(std::string("C20:socket:acknowledged-without-valid-key-and-pow:") + kname, desc().str());
        if (!got && want) c.violation(std::string("C20:socket:valid-handshake-not-acknowledged:") + kname, desc().str());
        if (!got) {
            ::usleep(2000);   // let the accept thread finish its bookkeeping
            if (A.node->session_key(p.id) != key_before) c.violation("C20:socket:rejection-changed-registered-key", desc().str());
            if (had_live_session) {
                c.note("socket-handshakes.rejections-with-a-live-session");
                if (!A.node->sessions_.is_connected(p.id)) c.violation("C20:socket:rejection-dropped-existing-session", desc().str());
                else {
                    // the live session still works: a frame under its key reaches the node
                    const auto before = A.count();
                    const auto payload = r.bytes(16);
                    const auto f = seal_frame(live->key, r, payload);
                    wr(live->fd, f.data(), f.size());
                    if (!wait_real([&] { return A.count() > before; }, 5000)) c.violation("C20:socket:existing-session-unusable-after-rejected-handshake", desc().str());
                }
            }
            if (!wait_real([&] { return A.node->reputation_score(p.id) < rep_before || rep_before <= -100; }, 2000)) c.violation("C20:socket:rejection-did-not-lower-reputation", desc().kv("before", rep_before).kv("after", A.node->reputation_score(p.id)).kv("key_ok", key_ok).kv("pow_ok", pow_ok)
                .kv("pow_fail_before", stats_before.handshake_validations_failure).kv("pow_fail_after", A.node->pow_statistics().handshake_validations_failure)
                .kv("pow_ok_before", stats_before.handshake_validations_success).kv("pow_ok_after", A.node->pow_statistics().handshake_validations_success).str());
        } else if (want) {
            if (!wait_real([&] { return A.node->sessions_.is_connected(p.id); }, 3000)) c.violation("C20:socket:acknowledged-but-no-session", desc().str());
            const auto k = A.node->session_key(p.id);
            if (!k || *k != p.key) c.violation("C20:socket:session-key-not-derived-from-offered-key", desc().str());
            // the node either adopts the new connection or, when it prefers the session it already has for this
            // peer, closes the new one right after the ACK; find out which connection is the live one now
            pollfd pf{p.fd, POLLIN | POLLRDHUP, 0};
            const bool new_one_closed = poll(&pf, 1, 150) > 0 && [&] { char b; return ::recv(p.fd, &b, 1, MSG_PEEK | MSG_DONTWAIT) == 0; }();
            if (new_one_closed) {
                c.note("socket-handshakes.new-connection-dropped-in-favour-of-existing-session");
                if (!live) c.violation("C20:socket:acknowledged-connection-closed-without-existing-session", desc().str());
            } else {
                live = std::move(pp);
            }
        }
        sig = hx::mix(sig, hx::mix(kind, got));
        const auto cd = cfg.handshake_cooldown.count() * NS;
        const auto sp = r.below(3);
        if (sp == 1 && cd > 0) vclk::advance(nanoseconds(cd / 2));
        else if (sp == 2) vclk::advance(nanoseconds(cd + NS));
        if (live && r.chance(1, 4)) {
            // the peer hangs up; wait until the node has noticed
            live.reset();
            wait_real([&] { return !A.node->sessions_.is_connected(base.id); }, 5000);
        }
    }
    c.sig(sig);
    if (c.cur_case % 49 == 0) c.sample(J().kv("difficulty", d).kv("cooldown_s", cfg.handshake_cooldown.count()).kv("steps", nsteps).str());
}
HX_PROPERTY("C20s", c20s_case);

// ------------------------------------------------------------------------------------ C35 (transport)
protocol::Manifest evil_manifest(Rng& r, const ChunkId& id, int kind) {
    auto m = genm::basic(r, std::chrono::system_clock::now() + std::chrono::hours(1), 2, 3);
    m.chunk_id = id;
    switch (kind) {
        case 0: m.shards[1].index = m.shards[0].index; break;                                   // duplicate indices
        case 1: m.shards[0].index = 0; break;                                                     // zero index
        case 2: m.threshold = 200; break;                                                         // threshold > shares
        case 3: m.shards = genm::shards(r, 255); m.threshold = 255; m.total_shares = 255; break;   // 255 shares
        case 4: m.expires_at = std::chrono::system_clock::time_point{seconds(9223372036LL)}; break;
        case 5: m.threshold = 0; break;
        case 6: m.shards.clear(); m.threshold = 0; break;
        case 7: for (auto& s : m.shards) { s.index = 7; s.value.fill(0); } break;                 // all duplicates, zero values
        case 8: m.metadata["filename"] = std::string(60000, '/'); break;
        // every length-prefixed field exactly at the limit of its prefix, and the counts at 255 (all decodable)
        case 10: m.metadata[std::string(255, 'k')] = "v"; break;
        case 11: m.metadata["k"] = std::string(65535, 'v'); break;
        case 12: m.discovery_hints.push_back({std::string(255, 's'), "tcp", "203.0.113.9:1", 1}); break;
        case 13: m.discovery_hints.push_back({"transport", std::string(255, 't'), "203.0.113.9:1", 1}); break;
        case 14: m.discovery_hints.push_back({"transport", "tcp", std::string(65535, 'e'), 1}); break;
        case 15: m.fallback_hints.push_back({std::string(65535, 'u'), 1}); break;
        case 16: m.security.advisory = std::string(65535, 'a'); break;
        case 17: for (int i = 0; i < 255; ++i) m.metadata["k" + std::to_string(i)] = "v"; break;
        case 18: for (int i = 0; i < 255; ++i) m.discovery_hints.push_back({"transport", "tcp", "203.0.113.9:" + std::to_string(i), static_cast<std::uint8_t>(i)}); break;
        case 19: for (int i = 0; i < 255; ++i) m.fallback_hints.push_back({"control://203.0.113.9:" + std::to_string(i), static_cast<std::uint8_t>(i)}); break;
        default: m.threshold = 3; m.shards[2].index = m.shards[0].index; break;                   // duplicate among the used ones
    }
    return m;
}

void c35t_case(Ctx& c, Rng& r) {
    vclk::real_mode();
    signal(SIGPIPE, SIG_IGN);   // as `eph serve` does
    Config cfg = base_config(r);
    cfg.min_manifest_ttl = seconds(1);
    cfg.max_manifest_ttl = seconds(86400);
    cfg.announce_min_interval = seconds(1);
    cfg.announce_burst_limit = 100000;
    LiveNode A(r.arr<32>(), cfg);
    A.node->store_chunk(fx::chunk_id_n(1), r.bytes(100), seconds(600));
    std::uint64_t sig = 0;
    auto honest_ok = [&]() {
        auto h = make_peer(r);
        const auto hr = do_handshake(h, *A.node, h.pub, 0, 4, 20000);
        return hr == HsResult::Ack;
    };
    if (c.cur_case < 2 || (c.thorough && c.cur_case % 300 == 0)) {
        // stall probe: a silent / half-sent inbound connection must not block an honest peer for ever
        const int silent = dial(A.node->transport_port());
        if (c.cur_case % 2 == 1) { const auto half = r.bytes(10); wr(silent, half.data(), half.size()); }
        c.note("transport.stall-probes");
        if (!honest_ok()) c.violation("C35:transport:silent-connection-blocks-other-peers", J().kv("waited_ms", 20000).kv("half_sent", c.cur_case % 2 == 1).str());
        ::close(silent);
    }
    // phase 1: pre-handshake garbage
    for (int q = 0; q < 4; ++q) {
        const int fd = dial(A.node->transport_port());
        if (fd < 0) { c.violation("C35:transport:node-no-longer-accepts", "{}"); return; }
        const auto k = r.below(8);
        std::vector<std::uint8_t> bytes;
        if (k == 0) bytes = r.bytes(r.below(32));                       // partial identity then close
        else if (k == 1) { bytes = r.bytes(32); put_be32(bytes, 0); }     // zero-length handshake
        else if (k == 2) { bytes = r.bytes(32); put_be32(bytes, 2049 + static_cast<std::uint32_t>(r.below(100000))); }
        else if (k == 3) { bytes = r.bytes(32); put_be32(bytes, 0xffffffffu); }
        else if (k == 4) { bytes = r.bytes(32); const auto n = 1 + r.below(2048); put_be32(bytes, static_cast<std::uint32_t>(n)); auto b = r.bytes(n); bytes.insert(bytes.end(), b.begin(), b.end()); }
        else if (k == 5) { bytes = r.bytes(32); put_be32(bytes, 100); auto b = r.bytes(r.below(100)); bytes.insert(bytes.end(), b.begin(), b.end()); }   // truncated body
        else if (k == 6) { bytes = r.bytes(32); protocol::Message m{}; m.type = protocol::MessageType::Request; m.payload = protocol::RequestPayload{}; auto e = protocol::encode(m); put_be32(bytes, static_cast<std::uint32_t>(e.size())); bytes.insert(bytes.end(), e.begin(), e.end()); }
        else bytes = r.bytes(r.below(5000));
        wr(fd, bytes.data(), bytes.size());
        if (r.chance(1, 2)) { linger lg{1, 0}; setsockopt(fd, SOL_SOCKET, SO_LINGER, &lg, sizeof lg); }
        ::close(fd);
        c.note("transport.pre-handshake-hostile-connections");
        sig = hx::mix(sig, k);
    }
    if (!honest_ok()) { c.violation("C35:transport:honest-peer-not-served-after-pre-handshake-garbage", "{}"); return; }
    c.note("transport.honest-handshakes-served");
    // phase 2: genuine handshake, then validly framed + encrypted + signed messages with adversarial contents
    auto p = make_peer(r);
    if (do_handshake(p, *A.node, p.pub, 0) != HsResult::Ack) { c.violation("harness:C35t:handshake-failed", "{}"); return; }
    wait_real([&] { return A.node->sessions_.is_connected(p.id); }, 3000);
    auto send_msg = [&](const protocol::Message& m) {
        const auto enc = protocol::encode_signed(m, p.key);
        const auto f = seal_frame(p.key, r, enc);
        return wr(p.fd, f.data(), f.size());
    };
    const auto before_handled = A.count();
    std::size_t sent_frames = 0;
    for (int q = 0; q < 10; ++q) {
        const auto k = r.below(9);
        const auto cid = fx::chunk_id_n(50 + static_cast<unsigned>(r.below(3)));
        protocol::Message m{};
        m.version = static_cast<std::uint8_t>(1 + r.below(4));
        if (k <= 2) {
            // ANNOUNCE carrying an adversarial manifest, then the CHUNK that makes the node use it
            const int ekind = static_cast<int>(r.below(20));
            const auto em = evil_manifest(r, cid, ekind);
            // serialised by the harness, as a foreign implementation would: nothing here depends on the node's own encoder
            const auto enc_uri = genm::ref_encode(em);
            if (!enc_uri) continue;
            const std::string uri = *enc_uri;
            if (ekind >= 10) c.note("transport.manifest-fields-at-prefix-limit");
            m.version = 4;
            m.type = protocol::MessageType::Announce;
            protocol::AnnouncePayload ap{};
            ap.chunk_id = cid; ap.peer_id = p.id; ap.endpoint = r.chance(1, 2) ? "203.0.113.5:1" : ""; ap.ttl = seconds(r.below(100000)); ap.manifest_uri = uri;
            if (r.chance(1, 2)) ap.assigned_shards = {em.shards.empty() ? std::uint8_t{1} : em.shards[0].index};
            m.payload = ap;
            if (!send_msg(m)) break;
            ++sent_frames;
            protocol::Message ch{};
            ch.type = protocol::MessageType::Chunk;
            protocol::ChunkPayload cp{};
            cp.chunk_id = cid; cp.data = r.bytes(r.below(300)); cp.ttl = seconds(r.below(100000));
            ch.payload = cp;
            if (!send_msg(ch)) break;
            ++sent_frames;
            c.note("transport.adversarial-manifest-then-chunk");
        } else if (k == 3) {
            m.type = protocol::MessageType::Chunk;
            protocol::ChunkPayload cp{};
            cp.chunk_id = r.chance(1, 2) ? fx::chunk_id_n(1) : r.arr<32>();
            cp.data = r.bytes(r.below(2000)); cp.ttl = seconds(gen::u32_boundary(r));
            m.payload = cp;
            if (!send_msg(m)) break;
            ++sent_frames;
        } else if (k == 4) {
            m.type = protocol::MessageType::Request;
            m.payload = protocol::RequestPayload{r.chance(1, 2) ? fx::chunk_id_n(1) : r.arr<32>(), r.chance(1, 2) ? p.id : r.arr<32>()};
            if (!send_msg(m)) break;
            ++sent_frames;
        } else if (k == 5) {
            m.type = protocol::MessageType::Acknowledge;
            m.payload = protocol::AcknowledgePayload{r.chance(1, 2) ? fx::chunk_id_n(1) : r.arr<32>(), r.arr<32>(), r.chance(1, 2)};
            if (!send_msg(m)) break;
            ++sent_frames;
        } else if (k == 6) {
            // any generated message of any type, in any state
            const auto gm = gen::message(r, static_cast<int>(r.below(6)), static_cast<std::uint8_t>(1 + r.below(4)), 400);
            if (!send_msg(gm)) break;
            ++sent_frames;
        } else if (k == 7) {
            // raw body with lying length fields, correctly MACed and framed
            auto body = protocol::encode(gen::message(r, r.chance(1, 2) ? 0 : 2, 4, 100));
            for (int t = 0; t < 2; ++t) { const std::size_t off = 2 + 4 * r.below(4); if (off + 4 <= body.size()) { const auto v = gen::u32_boundary(r); body[off] = v >> 24; body[off + 1] = v >> 16; body[off + 2] = v >> 8; body[off + 3] = v; } }
            const auto mac = ref::hmac_sha256(p.key, body);
            body.insert(body.end(), mac.begin(), mac.end());
            const auto f = seal_frame(p.key, r, body);
            if (!wr(p.fd, f.data(), f.size())) break;
            ++sent_frames;
        } else {
            // frame that decrypts to garbage / empty frame
            const auto g = r.bytes(r.below(200));
            const auto f = seal_frame(p.key, r, g);
            if (!wr(p.fd, f.data(), f.size())) break;
            ++sent_frames;
        }
        c.note("transport.post-handshake-hostile-messages");
        sig = hx::mix(sig, k);
    }
    // the node's reader thread must have survived everything it was sent (or closed the session cleanly)
    wait_real([&] { return A.count() >= before_handled + sent_frames || !A.node->sessions_.is_connected(p.id); }, 15000);
    if (r.chance(1, 2)) A.node->tick();
    if (!honest_ok()) { c.violation("C35:transport:honest-peer-not-served-after-hostile-session", "{}"); return; }
    c.note("transport.honest-handshakes-served");
    c.sig(sig);
    if (c.cur_case % 49 == 0) c.sample(J().kv("pre_handshake_connections", 4).kv("post_handshake_messages", 10).str());
}
HX_PROPERTY("C35t", c35t_case);

// ------------------------------------------------------------------------------------ C39
void c39_case(Ctx& c, Rng& r) {
    vclk::offset_mode();
    Config ca = base_config(r), cb = base_config(r);
    static const std::int64_t ivs[] = {5, 6, 10, 60, 300};
    const std::int64_t interval = ivs[r.below(5)];
    ca.key_rotation_interval = cb.key_rotation_interval = seconds(interval);
    ca.cleanup_interval = cb.cleanup_interval = seconds(100000);
    LiveNode A(r.arr<32>(), ca), B(r.arr<32>(), cb);
    if (!mutual_handshake(*A.node, *B.node)) { c.violation("harness:C39:handshake-failed", "{}"); return; }
    if (!A.node->connect_peer(B.node->id(), "127.0.0.1", B.node->transport_port())) { c.violation("harness:C39:connect-failed", "{}"); return; }
    if (!wait_real([&] { return B.node->sessions_.is_connected(A.node->id()); }, 5000)) { c.violation("harness:C39:session-not-established", "{}"); return; }
    auto probe = [&](LiveNode& from, LiveNode& to) {
        const auto before = to.count();
        const auto payload = r.bytes(32);
        if (!from.node->send_secure(to.node->id(), payload)) return 0;   // refused: no session
        if (!wait_real([&] { return to.count() > before; }, 2000)) return 1;   // sent, never delivered
        std::scoped_lock lock(to.m);
        return to.received.back().digest == ref::sha256(std::span<const std::uint8_t>(payload.data(), payload.size())) ? 2 : 1;
    };
    auto observe = [&](const char* when, bool rotation_due) {
        const auto ka = A.node->session_key(B.node->id());
        const auto kb = B.node->session_key(A.node->id());
        const bool conn_a = A.node->sessions_.is_connected(B.node->id());
        const bool conn_b = B.node->sessions_.is_connected(A.node->id());
        const bool equal = ka && kb && *ka == *kb;
        c.note(std::string("rotation.observations.") + when);
        const auto desc = [&] { return J().kv("when", when).kv("interval_s", interval).kv("keys_equal", equal).kv("a_connected", conn_a).kv("b_connected", conn_b); };
        if (!equal && (conn_a || conn_b)) {
            // the statement's negative: session open while the two ends hold different keys
            const int ab = probe(A, B), ba = probe(B, A);
            c.violation("C39:rotation:keys-diverge-session-open", desc().kv("probe_a_to_b", ab).kv("probe_b_to_a", ba).str());
            return false;
        }
        if (equal && conn_a && conn_b) {
            const int ab = probe(A, B), ba = probe(B, A);
            c.note("rotation.probes");
            if (ab != 2 || ba != 2) c.violation(rotation_due ? "C39:rotation:equal-keys-but-messages-not-delivered" : "C39:before-rotation:messages-not-delivered", desc().kv("probe_a_to_b", ab).kv("probe_b_to_a", ba).str());
        }
        return true;
    };
    std::uint64_t sig = static_cast<std::uint64_t>(interval);
    // before any rotation is due: keys equal, messages flow
    A.node->tick();
    B.node->tick();
    if (!observe("before-rotation-due", false)) { c.sig(sig); return; }
    // jump close to / past the interval, tick in a chosen order with a chosen offset between the two ticks
    static const std::int64_t deltas_ms[] = {0, 1, 10, 500, 999};
    const auto k = r.below(4);
    const std::int64_t base = k == 0 ? interval * NS - 50'000'000 : (k == 1 ? interval * NS + 1'000'000 : (k == 2 ? interval * NS + static_cast<std::int64_t>(r.below(3 * NS)) : 2 * interval * NS + 5'000'000));
    vclk::advance(nanoseconds(base));
    const bool a_first = r.chance(1, 2);
    const std::int64_t delta = r.chance(1, 4) ? interval * NS + 1'000'000 : deltas_ms[r.below(5)] * 1'000'000;
    (a_first ? A : B).node->tick();
    observe("between-the-two-ticks", true);
    vclk::advance(nanoseconds(delta));
    (a_first ? B : A).node->tick();
    observe("after-both-ticks", true);
    c.note("rotation.schedules");
    sig = hx::mix(sig, hx::mix(k, hx::mix(a_first, static_cast<std::uint64_t>(delta / 1'000'000))));
    c.sig(sig);
    if (c.cur_case % 13 == 0) c.sample(J().kv("interval_s", interval).kv("jump_ns", base).kv("first_tick", a_first ? "A" : "B").kv("delta_between_ticks_ns", delta).str());
}
HX_PROPERTY("C39", c39_case);

struct Init { Init() { signal(SIGPIPE, SIG_IGN); if (!std::getenv("HX_DEBUG")) fx::silence_cerr(); } } g_init;

}  // namespace

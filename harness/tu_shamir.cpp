// The repository's Shamir.cpp, compiled from the working tree into this TU so the
// anonymous-namespace field helpers can be observed directly.
#include "src/crypto/Shamir.cpp"

#include "tu_shamir.hpp"

namespace tu_shamir {
using namespace ephemeralnet::crypto;
static const auto& exp_t() { static const auto t = build_exp_table(); return t; }
static const auto& log_t() { static const auto t = build_log_table(exp_t()); return t; }
std::uint8_t mul(std::uint8_t a, std::uint8_t b) { return gf_mul(a, b, exp_t(), log_t()); }
std::uint8_t div(std::uint8_t a, std::uint8_t b) { return gf_div(a, b, exp_t(), log_t()); }
std::uint8_t add(std::uint8_t a, std::uint8_t b) { return gf_add(a, b); }
}  // namespace tu_shamir

verif_harness(h_crypto h_crypto.cpp tu_shamir.cpp)

verif_harness(h_transport h_transport.cpp)

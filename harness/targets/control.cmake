verif_harness(h_control h_control.cpp tu_control.cpp tu_storeproof.cpp
  ${VERIF_REPO}/src/daemon/ControlPlane.cpp ${VERIF_REPO}/src/daemon/ControlClient.cpp ${VERIF_REPO}/src/daemon/StructuredLogger.cpp)

verif_harness(h_relay h_relay.cpp ${VERIF_RELAY_SRC})

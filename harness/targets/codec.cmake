verif_harness(h_codec h_codec.cpp tu_stun.cpp ${VERIF_REPO}/src/daemon/StructuredLogger.cpp)

add_executable(mtool mtool.cpp)
target_link_libraries(mtool PRIVATE ephemeralnet::core OpenSSL::Crypto)
target_include_directories(mtool PRIVATE ${VERIF_REPO}/include ${VERIF_REPO} ${CMAKE_CURRENT_SOURCE_DIR})
target_compile_options(mtool PRIVATE -fno-access-control)

verif_harness(h_race h_race.cpp tu_control.cpp
  ${VERIF_REPO}/src/daemon/ControlPlane.cpp ${VERIF_REPO}/src/daemon/ControlClient.cpp ${VERIF_REPO}/src/daemon/StructuredLogger.cpp)

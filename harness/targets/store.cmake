verif_harness(h_store h_store.cpp)

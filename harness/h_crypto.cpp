// C08 SHA-256/HMAC, C09 ChaCha20, C10 Shamir, C12 handshake key agreement, C13 signed messages.
#include <poll.h>
#include <signal.h>
#include <sys/wait.h>
#include <unistd.h>

#include <algorithm>
#include <cmath>
#include <numeric>

#include "common/gen_msg.hpp"
#include "common/hx.hpp"
#include "common/vclock.hpp"
#include "common/ref_crypto.hpp"
#include "ephemeralnet/core/Node.hpp"
#include "ephemeralnet/crypto/ChaCha20.hpp"
#include "ephemeralnet/crypto/CryptoManager.hpp"
#include "ephemeralnet/crypto/HmacSha256.hpp"
#include "ephemeralnet/crypto/Sha256.hpp"
#include "ephemeralnet/crypto/Shamir.hpp"
#include "ephemeralnet/network/KeyExchange.hpp"
#include "ephemeralnet/protocol/Message.hpp"
#include "tu_shamir.hpp"

using namespace ephemeralnet;
using hx::Ctx;
using hx::J;
using hx::Rng;

namespace {

std::span<const std::uint8_t> sp(const std::vector<std::uint8_t>& v) { return {v.data(), v.size()}; }

std::size_t hash_len(Rng& r, bool thorough) {
    static const std::size_t b[] = {0, 1, 2, 54, 55, 56, 57, 62, 63, 64, 65, 66, 111, 118, 119, 120, 121, 127, 128, 129,
                                    183, 184, 191, 192, 193, 255, 256, 257, 511, 512, 513, 1023, 1024, 1025, 4095, 4096, 4097};
    const auto k = r.below(10);
    if (k < 4) return b[r.below(sizeof b / sizeof b[0])];
    if (k < 8) return r.below(1200);
    if (k == 8) {
        const std::size_t blocks = r.below(thorough ? 16384 : 512) + 1;   // up to 1 MiB (thorough)
        return static_cast<std::size_t>(static_cast<std::int64_t>(blocks * 64) + r.range(-2, 2));
    }
    return r.below(70000);
}

// ------------------------------------------------------------------------------------ C08
void c08_case(Ctx& c, Rng& r) {
    std::size_t len;
    const bool sweep = c.cur_case <= 300;
    len = sweep ? static_cast<std::size_t>(c.cur_case) : hash_len(r, c.thorough);
    const auto msg = r.bytes(len);
    const auto want = ref::sha256(sp(msg));
    const auto got = crypto::Sha256::digest(sp(msg));
    c.note("sha256.oneshot");
    if (got != want) {
        c.violation("C08:sha256:digest-mismatch", J().kv("len", len).kv("msg", hx::hexs(msg).substr(0, 400)).kv("want", hx::hexs(want)).kv("got", hx::hexs(got)).str());
    }
    // incremental splits
    auto run_split = [&](const std::vector<std::size_t>& cuts) {
        crypto::Sha256 h;
        std::size_t prev = 0;
        for (auto cut : cuts) {
            h.update(std::span<const std::uint8_t>(msg.data() + prev, cut - prev));
            prev = cut;
        }
        h.update(std::span<const std::uint8_t>(msg.data() + prev, len - prev));
        const auto d = h.finalize();
        c.note("sha256.incremental");
        if (d != want) {
            std::string cs;
            for (auto x : cuts) cs += std::to_string(x) + ",";
            c.violation("C08:sha256:incremental-mismatch", J().kv("len", len).kv("cuts", cs).kv("want", hx::hexs(want)).kv("got", hx::hexs(d)).str());
        }
    };
    if (sweep) {
        for (std::size_t cut = 0; cut <= len; ++cut) run_split({cut});
    }
    const int nsplit = sweep ? 3 : 6;
    for (int i = 0; i < nsplit; ++i) {
        const auto k = r.below(5) + 1;
        std::vector<std::size_t> cuts;
        for (std::uint64_t j = 0; j < k; ++j) {
            std::size_t cut;
            if (r.chance(1, 2) && len > 0) {
                static const std::size_t b[] = {0, 1, 55, 56, 63, 64, 65, 119, 120, 127, 128, 129};
                cut = std::min(len, b[r.below(12)] + 64 * r.below(len / 64 + 1));
            } else {
                cut = r.below(len + 1);
            }
            cuts.push_back(cut);
        }
        std::sort(cuts.begin(), cuts.end());
        run_split(cuts);
    }

    // HMAC
    static const std::size_t kb[] = {0, 1, 20, 31, 32, 33, 63, 64, 65, 100, 128, 131, 200};
    const std::size_t klen = sweep ? (c.cur_case % 201) : (r.chance(1, 2) ? kb[r.below(13)] : r.below(201));
    const auto key = r.bytes(klen);
    const auto hw = ref::hmac_sha256(sp(key), sp(msg));
    const auto hg = crypto::HmacSha256::compute(sp(key), sp(msg));
    c.note("hmac.compute");
    if (hw != hg) {
        c.violation("C08:hmac:mismatch", J().kv("keylen", klen).kv("len", len).kv("key", hx::hexs(key)).kv("want", hx::hexs(hw)).kv("got", hx::hexs(hg)).str());
    }
    auto verify = [&](std::span<const std::uint8_t> tag, bool expect, const char* what) {
        c.note("hmac.verify");
        bool v = crypto::HmacSha256::verify(sp(key), sp(msg), tag);
        if (v != expect) {
            c.violation(std::string("C08:hmac:verify-") + what, J().kv("keylen", klen).kv("len", len).kv("taglen", tag.size()).kv("expected", expect).kv("got", v).str());
        }
    };
    verify(hw, true, "rejects-correct-tag");
    const bool all_bits = sweep || r.chance(1, 16);
    for (int i = 0; i < (all_bits ? 256 : 6); ++i) {
        auto t = hw;
        const int bit = all_bits ? i : static_cast<int>(r.below(256));
        t[bit / 8] ^= static_cast<std::uint8_t>(1u << (bit % 8));
        verify(t, false, "accepts-flipped-tag");
    }
    for (std::size_t n = 0; n <= 64; ++n) {
        if (n == 32) continue;
        if (!sweep && !r.chance(1, 6)) continue;
        std::vector<std::uint8_t> t(n);
        for (std::size_t i = 0; i < n; ++i) t[i] = i < 32 ? hw[i] : r.byte();
        verify(sp(t), false, "accepts-wrong-length-tag");
    }
    const auto lc = len == 0 ? 0 : (len < 56 ? 1 : (len < 64 ? 2 : (len == 64 ? 3 : (len < 120 ? 4 : (len % 64 == 0 ? 5 : (len % 64 >= 56 ? 6 : 7))))));
    c.sig(hx::mix(hx::mix(lc, klen > 64 ? 2 : (klen == 64 ? 1 : 0)), len));
    if (c.cur_case % 997 == 5) c.sample(J().kv("len", len).kv("keylen", klen).kv("sha256", hx::hexs(got)).kv("hmac", hx::hexs(hg)).str());
}
HX_PROPERTY("C08", c08_case);

// ------------------------------------------------------------------------------------ C09
const std::uint8_t kRfcPlain[] =
    "Ladies and Gentlemen of the class of '99: If I could offer you only one tip for the future, sunscreen would be it.";
const char* kRfcCipherHex =
    "6e2e359a2568f98041ba0728dd0d6981e97e7aec1d4360c20a27afccfd9fae0bf91b65c5524733ab8f593dabcd62b3571639d624e65152ab8f530c359f0861d8"
    "07ca0dbf500d6a6156a38e088a22b65e52bc514d16ccf806818ce91ab77937365af90bbf74a35be6b40b8eedf2785e42874d";

void c09_case(Ctx& c, Rng& r) {
    crypto::Key key{};
    crypto::Nonce nonce{};
    std::uint32_t counter = 0;
    std::vector<std::uint8_t> in;
    bool rfc_vector = false;
    if (c.cur_case == 0) {
        rfc_vector = true;
        for (int i = 0; i < 32; ++i) key.bytes[i] = static_cast<std::uint8_t>(i);
        nonce.bytes = {0, 0, 0, 0, 0, 0, 0, 0x4a, 0, 0, 0, 0};
        counter = 1;
        in.assign(kRfcPlain, kRfcPlain + sizeof(kRfcPlain) - 1);
    } else if (c.cur_case == 1) {
        // RFC 8439 A.2 #1: zero key/nonce/counter, 64 zero bytes -> keystream 76b8e0ad...
        in.assign(64, 0);
    } else {
        key.bytes = r.arr<32>();
        nonce.bytes = r.arr<12>();
        static const std::uint32_t cb[] = {0u, 1u, 2u, 0x7fffffffu, 0x80000000u, 0xfffffffdu, 0xfffffffeu, 0xffffffffu};
        counter = r.chance(2, 3) ? cb[r.below(8)] : static_cast<std::uint32_t>(r.next());
        static const std::size_t lb[] = {0, 1, 31, 63, 64, 65, 127, 128, 129, 191, 192, 193, 255, 256, 257, 1000};
        const std::size_t len = r.chance(2, 3) ? lb[r.below(16)] : r.below(c.thorough ? 65536 : 4096);
        in = r.bytes(len);
    }
    std::vector<std::uint8_t> out;
    crypto::ChaCha20::apply(key, nonce, sp(in), out, counter);
    c.note("chacha.apply");
    const auto want = ref::chacha20_rfc(key.bytes.data(), nonce.bytes.data(), counter, sp(in));
    if (out != want) {
        c.violation("C09:chacha20:keystream-mismatch",
                    J().kv("len", in.size()).kv("counter", counter).kv("key", hx::hexs(key.bytes)).kv("nonce", hx::hexs(nonce.bytes)).str());
    }
    const std::uint64_t blocks = (in.size() + 63) / 64;
    const bool wraps = static_cast<std::uint64_t>(counter) + blocks > 0x100000000ull;
    if (wraps) {
        c.note("chacha.counter-wrap-cases");
    } else {
        const auto ossl = ref::chacha20_openssl(key.bytes.data(), nonce.bytes.data(), counter, sp(in));
        c.note("chacha.vs-openssl");
        if (ossl != want) {
            // the two references disagree: harness problem, never a verdict on the code
            c.violation("harness:C09:references-disagree", J().kv("len", in.size()).kv("counter", counter).str());
        }
        if (out != ossl) {
            c.violation("C09:chacha20:openssl-mismatch", J().kv("len", in.size()).kv("counter", counter).str());
        }
    }
    if (rfc_vector) {
        if (hx::hexs(out) != kRfcCipherHex) c.violation("C09:chacha20:rfc8439-2.4.2-vector", J().kv("got", hx::hexs(out)).str());
        c.note("chacha.rfc-vectors");
    }
    if (c.cur_case == 1) {
        if (hx::hexs(out).substr(0, 32) != "76b8e0ada0f13d90405d6ae55386bd28") c.violation("C09:chacha20:rfc8439-A.1-vector", J().kv("got", hx::hexs(out)).str());
        c.note("chacha.rfc-vectors");
    }
    // the same input placed at every small offset inside a larger buffer (a ciphertext behind a 12-byte nonce, a field inside
    // a decoded frame): the result may not depend on where the span starts in memory
    {
        const std::size_t off = 1 + r.below(15);
        std::vector<std::uint8_t> backing(in.size() + 32, 0xEE);
        std::copy(in.begin(), in.end(), backing.begin() + static_cast<std::ptrdiff_t>(off));
        std::vector<std::uint8_t> out2;
        crypto::ChaCha20::apply(key, nonce, std::span<const std::uint8_t>(backing.data() + off, in.size()), out2, counter);
        c.note("chacha.misaligned-spans");
        if (out2 != want) c.violation("C09:chacha20:keystream-mismatch:span-at-odd-offset", J().kv("len", in.size()).kv("counter", counter).kv("offset", off).str());
    }
    std::vector<std::uint8_t> back;
    crypto::ChaCha20::apply(key, nonce, sp(out), back, counter);
    c.note("chacha.involution");
    if (back != in) c.violation("C09:chacha20:not-involution", J().kv("len", in.size()).kv("counter", counter).str());

    // CryptoManager: counter derived from the chunk id (LE32 of the first four bytes)
    ChunkId id = r.arr<32>();
    if (r.chance(1, 3)) { id[0] = 0xff; id[1] = 0xff; id[2] = 0xff; id[3] = static_cast<std::uint8_t>(0xfe + r.below(2)); }
    const ChunkData pt(in.begin(), in.end());
    const auto sealed = crypto::CryptoManager::encrypt_with_key(key, id, pt);
    const std::uint32_t ctr = ref::le32(id.data());
    const auto w2 = ref::chacha20_rfc(key.bytes.data(), sealed.nonce.bytes.data(), ctr, sp(in));
    c.note("chacha.cryptomanager");
    if (sealed.data != w2) c.violation("C09:cryptomanager:encrypt-mismatch", J().kv("len", in.size()).kv("ctr", ctr).str());
    const auto dec = crypto::CryptoManager::decrypt_with_key(key, id, sp(sealed.data), sealed.nonce);
    if (!dec.has_value() || *dec != pt) c.violation("C09:cryptomanager:roundtrip", J().kv("len", in.size()).kv("ctr", ctr).str());

    const auto lclass = in.size() == 0 ? 0 : (in.size() % 64 == 0 ? 1 : (in.size() < 64 ? 2 : 3));
    c.sig(hx::mix(hx::mix(lclass, wraps), hx::mix(counter, in.size())));
    if (c.cur_case % 499 == 2) c.sample(J().kv("len", in.size()).kv("counter", counter).kv("wraps", wraps).kv("out_prefix", hx::hexs(out).substr(0, 32)).str());
}
HX_PROPERTY("C09", c09_case);

// ------------------------------------------------------------------------------------ C10
std::uint8_t ref_gf_mul(std::uint8_t a, std::uint8_t b) {
    std::uint16_t acc = 0, aa = a;
    for (int i = 0; i < 8; ++i) {
        if (b & (1u << i)) acc ^= static_cast<std::uint16_t>(aa << i);
    }
    for (int bit = 15; bit >= 8; --bit) {
        if (acc & (1u << bit)) acc ^= static_cast<std::uint16_t>(0x11Du << (bit - 8));
    }
    return static_cast<std::uint8_t>(acc);
}

void c10_field(Ctx& c) {
    std::uint64_t checked = 0;
    for (int a = 0; a < 256; ++a) {
        int inverses = 0;
        for (int b = 0; b < 256; ++b) {
            const auto m = tu_shamir::mul(a, b);
            ++checked;
            if (m != ref_gf_mul(a, b)) { c.violation("C10:field:mul-mismatch", J().kv("a", a).kv("b", b).kv("got", m).kv("want", ref_gf_mul(a, b)).str()); return; }
            if (m != tu_shamir::mul(b, a)) { c.violation("C10:field:mul-not-commutative", J().kv("a", a).kv("b", b).str()); return; }
            if (a != 0 && m == 1) ++inverses;
            if (b != 0) {
                std::uint8_t q = 0;
                try { q = tu_shamir::div(a, b); } catch (...) { c.violation("C10:field:div-throws-nonzero", J().kv("a", a).kv("b", b).str()); return; }
                if (tu_shamir::mul(q, b) != a) { c.violation("C10:field:div-not-inverse-of-mul", J().kv("a", a).kv("b", b).kv("q", q).str()); return; }
            }
        }
        if (a != 0 && inverses != 1) { c.violation("C10:field:inverse-count", J().kv("a", a).kv("inverses", inverses).str()); return; }
        bool threw = false;
        try { (void)tu_shamir::div(a, 0); } catch (const std::invalid_argument&) { threw = true; } catch (...) {}
        if (!threw) { c.violation("C10:field:div-by-zero-not-invalid-argument", J().kv("a", a).str()); return; }
    }
    // distributivity / associativity on a 16x16x16 lattice plus all (a,b,c) with a fixed set of c
    for (int a = 0; a < 256; a += 5)
        for (int b = 0; b < 256; b += 7)
            for (int cc = 0; cc < 256; cc += 3) {
                ++checked;
                const auto l = tu_shamir::mul(a, tu_shamir::add(b, cc));
                const auto rr = tu_shamir::add(tu_shamir::mul(a, b), tu_shamir::mul(a, cc));
                if (l != rr) { c.violation("C10:field:not-distributive", J().kv("a", a).kv("b", b).kv("c", cc).str()); return; }
                if (tu_shamir::mul(a, tu_shamir::mul(b, cc)) != tu_shamir::mul(tu_shamir::mul(a, b), cc)) { c.violation("C10:field:not-associative", J().kv("a", a).kv("b", b).kv("c", cc).str()); return; }
            }
    c.note("field.checks", checked);
    c.note("field.exhaustive-pairs", 65536);
}

struct SplitOut {
    bool ok{false};
    bool hang{false};
    std::string error;
    std::vector<crypto::ShamirShare> shares;
};

// split() is run in a forked child when the share count is large: a non-terminating
// split (and its unbounded allocation) must not take the harness down with it.
SplitOut guarded_split(const std::array<std::uint8_t, 32>& secret, std::uint8_t t, std::uint8_t n) {
    SplitOut o;
    if (n < 200) {
        try { o.shares = crypto::Shamir::split(secret, t, n); o.ok = true; }
        catch (const std::invalid_argument& e) { o.error = std::string("invalid_argument:") + e.what(); }
        catch (const std::exception& e) { o.error = std::string("exception:") + e.what(); }
        return o;
    }
    int fds[2];
    if (pipe(fds) != 0) { o.error = "pipe"; return o; }
    const pid_t pid = fork();
    if (pid == 0) {
        close(fds[0]);
        alarm(180);
        std::vector<std::uint8_t> buf;
        try {
            const auto shares = crypto::Shamir::split(secret, t, n);
            buf.push_back(1);
            const std::uint32_t cnt = static_cast<std::uint32_t>(shares.size());
            buf.insert(buf.end(), reinterpret_cast<const std::uint8_t*>(&cnt), reinterpret_cast<const std::uint8_t*>(&cnt) + 4);
            for (auto& s : shares) { buf.push_back(s.index); buf.insert(buf.end(), s.value.begin(), s.value.end()); }
        } catch (const std::invalid_argument&) { buf.push_back(2); }
        catch (...) { buf.push_back(3); }
        std::size_t off = 0;
        while (off < buf.size()) { auto w = write(fds[1], buf.data() + off, buf.size() - off); if (w <= 0) break; off += static_cast<std::size_t>(w); }
        _exit(0);
    }
    close(fds[1]);
    std::vector<std::uint8_t> buf;
    const auto deadline = std::chrono::steady_clock::now();
    (void)deadline;
    // "does not terminate" is decided on the child's consumed CPU time (a split is milliseconds of work; a loop that never
    // ends burns CPU), not on wall time: on a loaded machine a forked sanitizer process can take seconds to get going
    auto child_cpu_ms = [&]() -> long {
        char path[64];
        std::snprintf(path, sizeof path, "/proc/%d/stat", static_cast<int>(pid));
        FILE* f = std::fopen(path, "r");
        if (!f) return -1;
        char line[1024];
        const auto got = std::fread(line, 1, sizeof line - 1, f);
        std::fclose(f);
        line[got] = 0;
        const char* rp = std::strrchr(line, ')');
        if (!rp) return -1;
        unsigned long ut = 0, stt = 0;
        // fields after the command: state ppid pgrp session tty tpgid flags minflt cminflt majflt cmajflt utime stime
        if (std::sscanf(rp + 1, " %*c %*d %*d %*d %*d %*d %*u %*u %*u %*u %*u %lu %lu", &ut, &stt) != 2) return -1;
        return static_cast<long>((ut + stt) * 1000 / static_cast<unsigned long>(sysconf(_SC_CLK_TCK)));
    };
    int waited_ms = 0;
    bool eof = false, starved = false;
    while (!eof) {
        pollfd p{fds[0], POLLIN, 0};
        const int pr = poll(&p, 1, 100);
        if (pr > 0) {
            std::uint8_t tmp[65536];
            const auto got = read(fds[0], tmp, sizeof tmp);
            if (got <= 0) eof = true; else buf.insert(buf.end(), tmp, tmp + got);
        } else {
            waited_ms += 100;
            if (child_cpu_ms() >= 8000) break;                       // eight CPU seconds in a split: it is not coming back
            if (waited_ms >= 120000) { starved = true; break; }      // two minutes of wall time without the CPU budget used up
        }
    }
    if (!eof) { kill(pid, SIGKILL); if (starved) o.error = "harness:child-starved"; else o.hang = true; }
    close(fds[0]);
    int st = 0;
    waitpid(pid, &st, 0);
    if (o.hang) return o;
    if (buf.empty()) { o.error = "child-died status=" + std::to_string(st); return o; }
    if (buf[0] == 2) { o.error = "invalid_argument:"; return o; }
    if (buf[0] != 1 || buf.size() < 5) { o.error = "exception:other"; return o; }
    std::uint32_t cnt = 0;
    std::memcpy(&cnt, buf.data() + 1, 4);
    if (buf.size() != 5 + static_cast<std::size_t>(cnt) * 33) { o.error = "child-short-output"; return o; }
    for (std::uint32_t i = 0; i < cnt; ++i) {
        crypto::ShamirShare s{};
        s.index = buf[5 + i * 33];
        std::memcpy(s.value.data(), buf.data() + 6 + i * 33, 32);
        o.shares.push_back(s);
    }
    o.ok = true;
    return o;
}

enum class CombineOutcome { Value, InvalidArgument, Other };
CombineOutcome try_combine(const std::vector<crypto::ShamirShare>& shares, std::uint8_t t, std::array<std::uint8_t, 32>& out, std::string& what) {
    try { out = crypto::Shamir::combine(shares, t); return CombineOutcome::Value; }
    catch (const std::invalid_argument& e) { what = e.what(); return CombineOutcome::InvalidArgument; }
    catch (const std::exception& e) { what = e.what(); return CombineOutcome::Other; }
}

void c10_stat(Ctx& c, Rng& r) {
    // For t=2 the share value at a fixed index must be uniform over the field for a fixed secret.
    std::array<std::uint8_t, 32> secret = r.arr<32>();
    std::array<std::uint32_t, 256> bins{};
    const int N = 25600;
    for (int i = 0; i < N; ++i) {
        const auto sh = crypto::Shamir::split(secret, 2, 2);
        bins[sh[0].value[i % 32]]++;
    }
    double chi = 0;
    const double e = N / 256.0;
    for (auto b : bins) chi += (b - e) * (b - e) / e;
    c.note("split.uniformity-samples", N);
    // 255 dof: mean 255, sd ~22.6; 500 is > 10 sigma
    if (chi > 500.0) c.violation("C10:split:share-values-not-uniform", J().kv("chi2", chi).kv("dof", 255).str());
}

void c10_case(Ctx& c, Rng& r) {
    if (c.cur_case == 0) { c10_field(c); c.sig(1); return; }
    if (c.cur_case == 1) { c10_stat(c, r); c.sig(2); return; }
    // (t, n) selection
    int t, n;
    const std::uint64_t idx = c.cur_case - 2;
    if (idx < 78) {
        // enumerate all 1 <= t <= n <= 12
        int k = static_cast<int>(idx);
        n = 1;
        while (k >= n) { k -= n; ++n; }
        t = k + 1;
    } else if (idx < 78 + 12) {
        static const int bt[12][2] = {{1, 255}, {2, 255}, {255, 255}, {254, 255}, {128, 255}, {3, 255}, {1, 254}, {254, 254}, {127, 254}, {200, 250}, {1, 200}, {199, 200}};
        t = bt[idx - 78][0]; n = bt[idx - 78][1];
    } else {
        n = r.chance(1, 4) ? static_cast<int>(r.range(200, 255)) : static_cast<int>(r.range(1, 60));
        if (r.chance(1, 12)) n = 255;
        t = r.chance(1, 3) ? n : static_cast<int>(r.range(1, n));
        if (r.chance(1, 6)) t = std::max(1, n - 1);
    }
    std::array<std::uint8_t, 32> secret = r.arr<32>();
    if (r.chance(1, 10)) secret.fill(0);
    if (r.chance(1, 10)) secret.fill(0xff);
    const auto so = guarded_split(secret, static_cast<std::uint8_t>(t), static_cast<std::uint8_t>(n));
    c.note("split.calls");
    if (n == 255) c.note("split.n255");
    const auto desc = [&] { return J().kv("t", t).kv("n", n).kv("secret", hx::hexs(secret)); };
    if (so.hang) { c.violation("C10:split:does-not-terminate:n=" + std::to_string(n), desc().str()); c.sig(hx::mix(t, n)); return; }
    if (!so.ok && so.error == "harness:child-starved") { c.violation("harness:C10:split-child-got-no-cpu-for-two-minutes", desc().str()); c.sig(hx::mix(t, n)); return; }
    if (!so.ok) { c.violation("C10:split:fails-for-valid-parameters", desc().kv("error", so.error).str()); c.sig(hx::mix(t, n)); return; }
    const auto& shares = so.shares;
    if (shares.size() != static_cast<std::size_t>(n)) { c.violation("C10:split:wrong-share-count", desc().kv("got", shares.size()).str()); return; }
    std::set<int> idxs;
    for (auto& s : shares) {
        if (s.index == 0) c.violation("C10:split:zero-index", desc().str());
        idxs.insert(s.index);
    }
    if (idxs.size() != shares.size()) c.violation("C10:split:duplicate-indices", desc().str());

    auto subset_check = [&](std::vector<crypto::ShamirShare> sub, const char* how) {
        std::array<std::uint8_t, 32> out{};
        std::string what;
        const auto oc = try_combine(sub, static_cast<std::uint8_t>(t), out, what);
        c.note("combine.threshold-subsets");
        if (oc != CombineOutcome::Value || out != secret) {
            std::string ix;
            for (std::size_t i = 0; i < sub.size() && i < 40; ++i) ix += std::to_string(sub[i].index) + ",";
            c.violation(std::string("C10:combine:threshold-subset-fails:") + how, desc().kv("indices", ix).kv("outcome", static_cast<int>(oc)).kv("what", what).kv("got", hx::hexs(out)).str());
        }
    };
    // subsets: all when few, else random
    std::vector<int> order(n);
    std::iota(order.begin(), order.end(), 0);
    double combos = 1;
    for (int i = 0; i < t; ++i) combos = combos * (n - i) / (i + 1);
    if (combos <= 500 && n <= 12) {
        std::vector<bool> mask(n, false);
        std::fill(mask.begin(), mask.begin() + t, true);
        do {
            std::vector<crypto::ShamirShare> sub;
            for (int i = 0; i < n; ++i) if (mask[i]) sub.push_back(shares[i]);
            std::shuffle(sub.begin(), sub.end(), r);
            subset_check(sub, "enumerated");
        } while (std::prev_permutation(mask.begin(), mask.end()));
        c.note("combine.exhaustive-subset-configs");
    } else {
        for (int rep = 0; rep < 4; ++rep) {
            std::shuffle(order.begin(), order.end(), r);
            std::vector<crypto::ShamirShare> sub;
            for (int i = 0; i < t; ++i) sub.push_back(shares[order[i]]);
            subset_check(sub, "random");
        }
    }
    // more than t shares (all n, shuffled): still the secret
    if (n > t) {
        auto all = shares;
        std::shuffle(all.begin(), all.end(), r);
        subset_check(all, "superset");
    }
    // fewer than t shares
    if (t >= 2) {
        std::shuffle(order.begin(), order.end(), r);
        const int k = r.chance(1, 2) ? t - 1 : static_cast<int>(r.range(0, t - 1));
        std::vector<crypto::ShamirShare> sub;
        for (int i = 0; i < k; ++i) sub.push_back(shares[order[i]]);
        std::array<std::uint8_t, 32> out{};
        std::string what;
        const auto oc = try_combine(sub, static_cast<std::uint8_t>(t), out, what);
        c.note("combine.too-few");
        if (oc != CombineOutcome::InvalidArgument)
            c.violation("C10:combine:too-few-shares-not-invalid-argument", desc().kv("given", k).kv("outcome", static_cast<int>(oc)).str());
        // randomness / secrecy smoke: a single share must not equal the secret, two splits differ
        if (std::equal(secret.begin(), secret.end(), shares[0].value.begin()) && std::equal(secret.begin(), secret.end(), shares[n - 1].value.begin()))
            c.violation("C10:split:shares-equal-secret", desc().str());
    }
    // duplicates in an exactly-t set
    if (t >= 2) {
        for (int variant = 0; variant < 3; ++variant) {
            std::shuffle(order.begin(), order.end(), r);
            std::vector<crypto::ShamirShare> sub;
            for (int i = 0; i < t; ++i) sub.push_back(shares[order[i]]);
            const int a = static_cast<int>(r.below(t));
            int b = static_cast<int>(r.below(t));
            if (b == a) b = (a + 1) % t;
            sub[b].index = sub[a].index;
            const char* vname = "random-values";
            if (variant == 1) { sub[a].value.fill(0); sub[b].value.fill(0); vname = "zero-values"; }
            if (variant == 2) { sub[b].value = sub[a].value; vname = "same-share-twice"; }
            std::array<std::uint8_t, 32> out{};
            std::string what;
            const auto oc = try_combine(sub, static_cast<std::uint8_t>(t), out, what);
            c.note("combine.duplicate-index-sets");
            if (oc != CombineOutcome::InvalidArgument)
                c.violation(std::string("C10:combine:duplicate-index-accepted:") + vname,
                            desc().kv("dup_index", sub[a].index).kv("outcome", static_cast<int>(oc)).kv("returned", hx::hexs(out)).kv("is_secret", out == secret).str());
        }
    }
    // superset with a duplicate somewhere: error or the correct secret
    if (n > t) {
        auto all = shares;
        std::shuffle(all.begin(), all.end(), r);
        const int a = static_cast<int>(r.below(n));
        int b = static_cast<int>(r.below(n));
        if (b == a) b = (a + 1) % n;
        all[b] = all[a];
        std::array<std::uint8_t, 32> out{};
        std::string what;
        const auto oc = try_combine(all, static_cast<std::uint8_t>(t), out, what);
        c.note("combine.superset-with-duplicate");
        if (oc == CombineOutcome::Other || (oc == CombineOutcome::Value && out != secret))
            c.violation("C10:combine:superset-duplicate-wrong-secret", desc().kv("outcome", static_cast<int>(oc)).str());
    }
    // index 0: no crash, no foreign exception type; and, as for any share set ("in any order"), the outcome must not
    // depend on where in the set the malformed share sits: either every ordering is refused or every ordering
    // yields the same bytes
    {
        std::vector<crypto::ShamirShare> sub(shares.begin(), shares.begin() + t);
        sub[r.below(t)].index = 0;
        if (r.chance(1, 2)) sub[0].value = r.arr<32>();
        std::array<std::uint8_t, 32> out{};
        std::string what;
        const auto oc = try_combine(sub, static_cast<std::uint8_t>(t), out, what);
        c.note("combine.index-zero");
        if (oc == CombineOutcome::Other) c.violation("C10:combine:index-zero-foreign-exception", desc().kv("what", what).str());
        const int rotations = std::min(t, 6);
        for (int rot = 1; rot <= rotations; ++rot) {
            auto perm = sub;
            if (rot < rotations) std::rotate(perm.begin(), perm.begin() + (rot % t), perm.end());
            else std::shuffle(perm.begin(), perm.end(), r);
            std::array<std::uint8_t, 32> out2{};
            std::string what2;
            const auto oc2 = try_combine(perm, static_cast<std::uint8_t>(t), out2, what2);
            c.note("combine.index-zero-orderings");
            if (oc2 != oc || (oc == CombineOutcome::Value && out2 != out)) {
                std::string ix;
                for (std::size_t i = 0; i < perm.size() && i < 40; ++i) ix += std::to_string(perm[i].index) + ",";
                c.violation("C10:combine:outcome-depends-on-share-order:index-zero", desc().kv("order", ix).kv("first_outcome", static_cast<int>(oc)).kv("this_outcome", static_cast<int>(oc2)).str());
                break;
            }
        }
    }
    // the same order-independence for sets with a repeated index (exactly t shares)
    if (t >= 3) {
        std::vector<crypto::ShamirShare> sub(shares.begin(), shares.begin() + t);
        sub[1].index = sub[0].index;
        if (r.chance(1, 2)) { sub[0].value.fill(0); sub[1].value.fill(0); }
        std::array<std::uint8_t, 32> out{};
        std::string what;
        const auto oc = try_combine(sub, static_cast<std::uint8_t>(t), out, what);
        for (int rot = 1; rot < std::min(t, 5); ++rot) {
            auto perm = sub;
            std::rotate(perm.begin(), perm.begin() + rot, perm.end());
            std::array<std::uint8_t, 32> out2{};
            const auto oc2 = try_combine(perm, static_cast<std::uint8_t>(t), out2, what);
            c.note("combine.duplicate-orderings");
            if (oc2 != oc) { c.violation("C10:combine:outcome-depends-on-share-order:duplicate-index", desc().kv("rotation", rot).str()); break; }
        }
    }
    c.sig(hx::mix(t, n));
    if (c.cur_case % 61 == 3) c.sample(desc().kv("shares", shares.size()).kv("first_index", shares[0].index).str());
}
HX_PROPERTY("C10", c10_case);

// ------------------------------------------------------------------------------------ C12
std::uint32_t ref_modexp(std::uint64_t base, std::uint32_t e, std::uint32_t m) {
    unsigned __int128 result = 1 % m, b = base % m;
    while (e) {
        if (e & 1) result = (result * b) % m;
        b = (b * b) % m;
        e >>= 1;
    }
    return static_cast<std::uint32_t>(result);
}

PeerId make_peer(Rng& r) { return r.arr<32>(); }

void c12_case(Ctx& c, Rng& r) {
    vclk::offset_mode();   // real time plus an offset that only grows (the re-handshake part lets rotation intervals elapse)
    using KX = network::KeyExchange;
    constexpr std::uint32_t p = KX::kPrime;
    // scalar layer
    static const std::uint32_t sb[] = {2u, 3u, 4u, p - 3u, p - 2u, 65537u, 0x40000000u, 0x7ffffffdu};
    for (int i = 0; i < 64; ++i) {
        const std::uint32_t a = r.chance(1, 3) ? sb[r.below(8)] : static_cast<std::uint32_t>(r.range(2, p - 2));
        const std::uint32_t b = r.chance(1, 3) ? sb[r.below(8)] : static_cast<std::uint32_t>(r.range(2, p - 2));
        const auto pa = KX::compute_public(a), pb = KX::compute_public(b);
        c.note("dh.scalar-pairs");
        if (pa != ref_modexp(KX::kGenerator, a, p)) c.violation("C12:modexp:public-mismatch", J().kv("a", a).kv("got", pa).str());
        const auto s1 = KX::derive_shared_secret(a, pb), s2 = KX::derive_shared_secret(b, pa);
        if (s1.bytes != s2.bytes) c.violation("C12:dh:secrets-differ", J().kv("a", a).kv("b", b).str());
        if (!KX::validate_public(pa) && pa > 1) c.violation("C12:validate:rejects-own-public", J().kv("a", a).kv("pub", pa).str());
        // modexp against the 128-bit reference on arbitrary arguments
        const std::uint64_t base = r.chance(1, 4) ? (~0ull - r.below(4)) : r.next();
        const std::uint32_t e = static_cast<std::uint32_t>(r.next());
        const std::uint32_t m = r.chance(1, 2) ? p : static_cast<std::uint32_t>(r.range(1, 0xffffffffll));
        c.note("dh.modexp-checks");
        if (KX::modexp(base, e, m) != ref_modexp(base, e, m)) c.violation("C12:modexp:mismatch", J().kv("base", base).kv("e", e).kv("m", m).str());
    }
    static const std::uint32_t vb[] = {0u, 1u, 2u, 3u, p - 2u, p - 1u, p, p + 1u, 0x80000000u, 0xfffffffeu, 0xffffffffu};
    for (auto v : vb) {
        const bool want = v > 1 && v < p;
        c.note("dh.validate-checks");
        if (KX::validate_public(v) != want) c.violation("C12:validate:wrong-range", J().kv("value", v).kv("want", want).str());
    }
    {
        const std::uint32_t v = static_cast<std::uint32_t>(r.next());
        if (KX::validate_public(v) != (v > 1 && v < p)) c.violation("C12:validate:wrong-range", J().kv("value", v).str());
    }

    // node layer
    Config ca{}, cb{};
    ca.identity_seed = static_cast<std::uint32_t>(r.next());
    cb.identity_seed = static_cast<std::uint32_t>(r.next());
    if (r.chance(1, 8)) cb.identity_seed = ca.identity_seed;
    const auto diff = static_cast<std::uint8_t>(r.below(9));
    ca.handshake_pow_difficulty = cb.handshake_pow_difficulty = diff;
    const bool rehandshake = r.chance(1, 2);
    if (rehandshake) ca.handshake_cooldown = cb.handshake_cooldown = std::chrono::seconds(0);   // the second handshake is validated in full, not answered from the cool-down record
    PeerId ida = make_peer(r), idb = make_peer(r);
    if (r.chance(1, 8)) { idb = ida; idb[31] ^= 1; }
    Node A(ida, ca), B(idb, cb);
    const auto wa = A.generate_handshake_work(idb);   // A's proof towards B
    const auto wb = B.generate_handshake_work(ida);
    if (!wa || !wb) { c.note("node.pow-unsolved"); return; }
    const bool okA = A.perform_handshake(idb, B.public_identity(), *wb);
    const bool okB = B.perform_handshake(ida, A.public_identity(), *wa);
    c.note("node.handshake-pairs");
    if (!okA || !okB) { c.violation("C12:node:valid-handshake-rejected", J().kv("okA", okA).kv("okB", okB).kv("difficulty", diff).str()); return; }
    const auto ka = A.session_key(idb), kb = B.session_key(ida);
    if (!ka || !kb) { c.violation("C12:node:no-session-key", "{}"); return; }
    if (*ka != *kb) c.violation("C12:node:session-keys-differ", J().kv("seedA", *ca.identity_seed).kv("seedB", *cb.identity_seed).kv("ka", hx::hexs(*ka)).kv("kb", hx::hexs(*kb)).str());
    // the same two identities handshake again later (reconnect), after none / one / both sides rotated their session
    // key 0..3 times: accepting the handshake must again leave both on one key
    if (rehandshake) {
        const auto ra = r.below(4), rb = r.below(4);
        // rotation happens when the rotation interval has elapsed on the rotating node's clock
        const auto interval = A.config().key_rotation_interval;
        std::uint64_t rotated_a = 0, rotated_b = 0;
        for (std::uint64_t i = 0; i < std::max(ra, rb); ++i) {
            vclk::advance(interval + std::chrono::seconds(1));
            if (i < ra && A.rotate_session_key(idb)) ++rotated_a;
            if (i < rb && B.rotate_session_key(ida)) ++rotated_b;
        }
        if (rotated_a != rotated_b) c.note("node.re-handshakes-with-different-rotation-counts");
        const auto wa3 = A.generate_handshake_work(idb);
        const auto wb3 = B.generate_handshake_work(ida);
        if (wa3 && wb3) {
            const bool okA3 = A.perform_handshake(idb, B.public_identity(), *wb3);
            const bool okB3 = B.perform_handshake(ida, A.public_identity(), *wa3);
            c.note("node.re-handshakes");
            if (rotated_a || rotated_b) c.note("node.re-handshakes-after-rotation");
            if (!okA3 || !okB3) c.violation("C12:node:valid-handshake-rejected", J().kv("okA", okA3).kv("okB", okB3).kv("second_handshake", true).str());
            else {
                const auto ka3 = A.session_key(idb), kb3 = B.session_key(ida);
                if (!ka3 || !kb3) c.violation("C12:node:no-session-key", J().kv("second_handshake", true).str());
                else if (*ka3 != *kb3) c.violation("C12:node:session-keys-differ", J().kv("second_handshake", true).kv("rotations_a", ra).kv("rotations_b", rb).str());
            }
        }
    }
    // depends on both public keys: a different identity on one side gives another key
    Config ca2 = ca;
    ca2.identity_seed = *ca.identity_seed + 1 + static_cast<std::uint32_t>(r.below(1000));
    Node A2(ida, ca2);
    if (A2.public_identity() != A.public_identity()) {
        const auto wb2 = B.generate_handshake_work(ida);
        Node B2(idb, cb);
        const auto wa2 = A2.generate_handshake_work(idb);
        if (wa2 && wb2 && A2.perform_handshake(idb, B2.public_identity(), *B2.generate_handshake_work(ida)) &&
            B2.perform_handshake(ida, A2.public_identity(), *wa2)) {
            const auto k2 = A2.session_key(idb), k2b = B2.session_key(ida);
            c.note("node.key-dependence-checks");
            if (k2 && *k2 == *ka) c.violation("C12:node:key-independent-of-public-key", J().kv("seedA", *ca.identity_seed).kv("seedA2", *ca2.identity_seed).str());
            if (k2 && k2b && *k2 != *k2b) c.violation("C12:node:session-keys-differ", J().kv("second_pair", true).str());
        }
    }
    // the same peer id comes back with another identity key (restart without a fixed seed) and handshakes with the node that
    // already knows it under the old key: the node must end up on the key derived from the key presented now
    if (A2.public_identity() != A.public_identity()) {
        const auto wa4 = A2.generate_handshake_work(idb);
        const auto wb4 = B.generate_handshake_work(ida);
        if (wa4 && wb4) {
            const bool okB4 = B.perform_handshake(ida, A2.public_identity(), *wa4);
            const bool okA4 = A2.perform_handshake(idb, B.public_identity(), *wb4);
            c.note("node.handshakes-after-identity-change");
            if (!okA4 || !okB4) c.violation("C12:node:valid-handshake-rejected", J().kv("okA", okA4).kv("okB", okB4).kv("after_identity_change", true).str());
            else {
                const auto k4a = A2.session_key(idb), k4b = B.session_key(ida);
                if (!k4a || !k4b) c.violation("C12:node:no-session-key", J().kv("after_identity_change", true).str());
                else if (*k4a != *k4b) c.violation("C12:node:session-keys-differ", J().kv("after_identity_change", true).kv("seedA", *ca.identity_seed).kv("seedA2", *ca2.identity_seed).str());
            }
        }
    }
    // refused public values
    for (auto v : {0u, 1u, p, p + 1u, 0xffffffffu}) {
        Node V(ida, ca);
        PeerId who = make_peer(r);
        c.note("node.invalid-public-offers");
        if (V.perform_handshake(who, v, r.next())) c.violation("C12:node:invalid-public-accepted", J().kv("value", v).str());
        if (V.session_key(who).has_value()) c.violation("C12:node:invalid-public-registers-key", J().kv("value", v).str());
    }
    c.sig(hx::mix(hx::mix(*ca.identity_seed, *cb.identity_seed), diff));
    if (c.cur_case % 97 == 1) c.sample(J().kv("seedA", *ca.identity_seed).kv("seedB", *cb.identity_seed).kv("difficulty", diff).kv("key", hx::hexs(*ka)).str());
}
HX_PROPERTY("C12", c12_case);

// ------------------------------------------------------------------------------------ C13
void c13_case(Ctx& c, Rng& r) {
    const int type = static_cast<int>(c.cur_case % 6);
    std::uint8_t version = static_cast<std::uint8_t>(1 + r.below(4));
    if (type == 0 && version == 3 && r.chance(3, 4)) version = 4;   // v3 announces are C15's subject
    const auto m = gen::message(r, type, version, c.thorough ? 3000 : 300);
    static const std::size_t klens[] = {32, 32, 32, 32, 0, 1, 16, 64, 65, 100};
    const auto key = r.bytes(klens[r.below(10)]);
    const auto buf = protocol::encode_signed(m, sp(key));

    std::uint64_t accepted = 0, rejected = 0;
    auto oracle = [&](const std::vector<std::uint8_t>& b, const std::vector<std::uint8_t>& k, const char* how) {
        c.note("signed.buffers-checked");
        const auto got = protocol::decode_signed(sp(b), sp(k));
        bool want = false;
        std::optional<protocol::Message> inner;
        if (b.size() >= 32) {
            const std::span<const std::uint8_t> body(b.data(), b.size() - 32);
            const auto mac = ref::hmac_sha256(sp(k), body);
            if (std::equal(mac.begin(), mac.end(), b.end() - 32)) {
                inner = protocol::decode(body);
                want = inner.has_value();
            }
        }
        if (got.has_value()) ++accepted; else ++rejected;
        if (got.has_value() != want) {
            c.violation(std::string("C13:decode_signed:") + (want ? "rejects-valid:" : "accepts-invalid:") + how,
                        J().kv("type", type).kv("version", version).kv("len", b.size()).kv("keylen", k.size()).kv("buffer", hx::hexs(b).substr(0, 600)).str());
        } else if (want && !gen::message_equal(*got, *inner)) {
            c.violation("C13:decode_signed:message-differs-from-body", J().kv("type", type).kv("len", b.size()).str());
        }
    };
    oracle(buf, key, "original");
    const bool small = buf.size() <= 220;
    // bit flips
    if (small) {
        for (std::size_t bit = 0; bit < buf.size() * 8; ++bit) {
            auto b = buf;
            b[bit / 8] ^= static_cast<std::uint8_t>(1u << (bit % 8));
            oracle(b, key, "bitflip");
        }
        c.note("signed.exhaustive-bitflip-messages");
    } else {
        for (int i = 0; i < 96; ++i) {
            auto b = buf;
            const auto bit = r.below(buf.size() * 8);
            b[bit / 8] ^= static_cast<std::uint8_t>(1u << (bit % 8));
            if (r.chance(1, 4)) { const auto bit2 = r.below(buf.size() * 8); b[bit2 / 8] ^= static_cast<std::uint8_t>(1u << (bit2 % 8)); }
            oracle(b, key, "bitflip");
        }
    }
    // truncations
    for (std::size_t n = 0; n < buf.size(); ++n) {
        if (!small && !(n < 40 || n + 40 > buf.size() || r.chance(1, 16))) continue;
        oracle(std::vector<std::uint8_t>(buf.begin(), buf.begin() + n), key, "truncation");
    }
    // extensions
    for (int i = 0; i < 8; ++i) {
        auto b = buf;
        const auto extra = r.bytes(1 + r.below(64));
        if (r.chance(1, 2)) b.insert(b.end(), extra.begin(), extra.end());
        else b.insert(b.begin() + static_cast<std::ptrdiff_t>(r.below(b.size() + 1)), extra.begin(), extra.end());
        oracle(b, key, "extension");
    }
    // block swaps
    if (buf.size() >= 48) {
        for (int i = 0; i < 6; ++i) {
            auto b = buf;
            const auto x = r.below(b.size() - 15), y = r.below(b.size() - 15);
            if (x + 16 <= y || y + 16 <= x) {
                std::swap_ranges(b.begin() + x, b.begin() + x + 16, b.begin() + y);
                if (b != buf) oracle(b, key, "reorder");
            }
        }
    }
    // other keys
    {
        auto k2 = key;
        if (!k2.empty()) { const auto bit = r.below(k2.size() * 8); k2[bit / 8] ^= static_cast<std::uint8_t>(1u << (bit % 8)); } else k2.push_back(0);
        oracle(buf, k2, "key-bitflip");
        oracle(buf, r.bytes(32), "other-key");
        auto k3 = key; k3.push_back(0);   // zero-extended key: same HMAC key block when short -> must still agree with the reference
        oracle(buf, k3, "key-zero-extended");
        // strict prefixes of the signing key, tried right after traffic under the full key
        for (std::size_t cut : {key.size() > 0 ? key.size() - 1 : 0, key.size() / 2, std::size_t{1}, std::size_t{0}}) {
            if (cut >= key.size()) continue;
            oracle(buf, key, "original");
            oracle(buf, std::vector<std::uint8_t>(key.begin(), key.begin() + static_cast<std::ptrdiff_t>(cut)), "key-prefix");
        }
        // and keys that extend the signing key with non-zero bytes
        { auto k4 = key; k4.push_back(0x80); oracle(buf, key, "original"); oracle(buf, k4, "key-extended"); }
    }
    // body mutated and re-signed with the reference MAC: accepted iff the body decodes
    for (int i = 0; i < 12; ++i) {
        std::vector<std::uint8_t> body(buf.begin(), buf.end() - 32);
        const auto how = r.below(4);
        if (how == 0 && !body.empty()) body[r.below(body.size())] = r.byte();
        else if (how == 1) body.resize(r.below(body.size() + 1));
        else if (how == 2) { auto e = r.bytes(1 + r.below(16)); body.insert(body.end(), e.begin(), e.end()); }
        else if (body.size() >= 2) { body[0] = static_cast<std::uint8_t>(r.below(7)); body[1] = static_cast<std::uint8_t>(r.below(9)); }
        const auto mac = ref::hmac_sha256(sp(key), sp(body));
        body.insert(body.end(), mac.begin(), mac.end());
        oracle(body, key, "resigned");
    }
    c.note("signed.accepted", accepted);
    c.note("signed.rejected", rejected);
    c.sig(hx::mix(hx::mix(type, version), hx::mix(buf.size(), key.size())));
    if (c.cur_case % 41 == 0) c.sample(J().kv("type", type).kv("version", version).kv("len", buf.size()).kv("keylen", key.size()).kv("accepted", accepted).kv("rejected", rejected).str());
}
HX_PROPERTY("C13", c13_case);

}  // namespace

// The repository's src/main.cpp compiled into this TU (main renamed) so that the CLI's
// anonymous-namespace helpers can be observed directly.
#define main eph_cli_main_renamed
#include "src/main.cpp"
#undef main

#include "tu_cli.hpp"

namespace tu_cli {
std::optional<ephemeralnet::ChunkData> decrypt_chunk(const ephemeralnet::protocol::Manifest& manifest,
                                                     const ephemeralnet::protocol::ChunkPayload& payload) {
    return ::decrypt_chunk_with_manifest(manifest, payload);
}
bool transport_pow_valid(const ephemeralnet::PeerId& initiator, const ephemeralnet::PeerId& responder,
                         std::uint32_t initiator_public, std::uint64_t nonce, std::uint8_t difficulty) {
    return ::transport_pow_valid(initiator, responder, initiator_public, nonce, difficulty);
}
std::optional<std::uint64_t> compute_transport_pow(const ephemeralnet::PeerId& initiator, const ephemeralnet::PeerId& responder,
                                                   std::uint32_t initiator_public, std::uint8_t difficulty) {
    return ::compute_transport_pow(initiator, responder, initiator_public, difficulty);
}
std::array<std::uint8_t, 32> transport_digest(const ephemeralnet::PeerId& initiator, const ephemeralnet::PeerId& responder,
                                              std::uint32_t initiator_public, std::uint64_t nonce) {
    return ::transport_handshake_digest(initiator, responder, initiator_public, nonce);
}
std::size_t count_leading_zero_bits(std::span<const std::uint8_t> digest) { return ::count_leading_zero_bits(digest); }
int cli_main(int argc, char** argv) { return ::eph_cli_main_renamed(argc, argv); }
}  // namespace tu_cli

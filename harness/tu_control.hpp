#pragma once
#include <cstdint>

#include "ephemeralnet/daemon/ControlPlane.hpp"
namespace tu_control {
std::uint16_t bound_port(ephemeralnet::daemon::ControlServer& server);
bool transport_stop_requested(ephemeralnet::daemon::ControlServer& server);
}

#pragma once
#include <array>
#include <cstddef>
#include <cstdint>
#include <string>
namespace tu_stun {
bool parse(const std::uint8_t* data, std::size_t length, const std::array<std::uint8_t, 12>& txid,
           std::string& address, std::uint16_t& port);
}

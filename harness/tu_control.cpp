// The repository's ControlServer.cpp compiled into this TU so the harness can learn the bound port and
// observe the server's private flags.
#include "src/daemon/ControlServer.cpp"

#include "tu_control.hpp"

namespace tu_control {
std::uint16_t bound_port(ephemeralnet::daemon::ControlServer& server) {
    sockaddr_in a{};
    socklen_t l = sizeof a;
    if (getsockname(server.impl_->listen_socket_, reinterpret_cast<sockaddr*>(&a), &l) != 0) return 0;
    return ntohs(a.sin_port);
}
bool transport_stop_requested(ephemeralnet::daemon::ControlServer& server) { return server.impl_->transport_stopped_.load(); }
}  // namespace tu_control

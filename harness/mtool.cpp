// mtool: helper for the black-box CLI driver.
//   mtool make   --payload F --uri-out F [--cipher-out F] [--hint scheme,transport,endpoint,prio]... [--fallback uri,prio]...
//                [--filename-hex HEX] [--ttl S] [--bits N] [--expired]
//   mtool liar   --payload F --variant honest|truncated|extended|other|empty|otherchunk --uri-out F [--relay host:port] [--seconds N]
//        starts a real Node (transport on an ephemeral port) holding the payload, then replaces the stored
//        ciphertext according to the variant; writes a manifest whose only discovery path is this node.
//   mtool peer   --port P --peer-id HEX64 --identity-seed N --seconds S --seed R
//        a real Node that handshakes with a running daemon (identity known from its flags), keeps a transport
//        session to it and announces / pushes / requests / acknowledges until the time is up; prints counters.
#include <unistd.h>

#include <signal.h>

#include <chrono>
#include <random>
#include <cstring>
#include <fstream>
#include <iostream>
#include <thread>

#include "common/ref_crypto.hpp"
#include "ephemeralnet/core/Node.hpp"
#include "ephemeralnet/crypto/CryptoManager.hpp"
#include "ephemeralnet/crypto/Shamir.hpp"
#include "ephemeralnet/network/RelayClient.hpp"
#include "ephemeralnet/protocol/Manifest.hpp"

using namespace ephemeralnet;

static std::vector<std::uint8_t> slurp(const std::string& p) {
    std::ifstream f(p, std::ios::binary);
    return std::vector<std::uint8_t>((std::istreambuf_iterator<char>(f)), std::istreambuf_iterator<char>());
}
static void spit(const std::string& p, const std::string& s) { std::ofstream f(p, std::ios::binary | std::ios::trunc); f << s; }
static std::vector<std::string> split(const std::string& s, char c, std::size_t max_parts) {
    std::vector<std::string> out;
    std::size_t pos = 0;
    while (out.size() + 1 < max_parts) {
        const auto n = s.find(c, pos);
        if (n == std::string::npos) break;
        out.push_back(s.substr(pos, n - pos));
        pos = n + 1;
    }
    out.push_back(s.substr(pos));
    return out;
}
static std::string unhex(const std::string& h) {
    std::string o;
    for (std::size_t i = 0; i + 1 < h.size(); i += 2) o.push_back(static_cast<char>(std::stoi(h.substr(i, 2), nullptr, 16)));
    return o;
}

int main(int argc, char** argv) {
    if (argc < 2) return 2;
    const std::string cmd = argv[1];
    std::string payload_path, uri_out, cipher_out, filename_hex, variant = "honest", relay;
    std::vector<std::string> hints, fallbacks;
    long ttl = 600, bits = 0, seconds_alive = 60, port = 0, identity_seed = 0, rseed = 1;
    std::string peer_hex, chunk_id_of;
    bool expired = false, has_filename = false;
    for (int i = 2; i < argc; ++i) {
        const std::string a = argv[i];
        auto next = [&]() -> std::string { return i + 1 < argc ? argv[++i] : ""; };
        if (a == "--payload") payload_path = next();
        else if (a == "--uri-out") uri_out = next();
        else if (a == "--cipher-out") cipher_out = next();
        else if (a == "--hint") hints.push_back(next());
        else if (a == "--fallback") fallbacks.push_back(next());
        else if (a == "--filename-hex") { filename_hex = next(); has_filename = true; }
        else if (a == "--ttl") ttl = std::stol(next());
        else if (a == "--bits") bits = std::stol(next());
        else if (a == "--expired") expired = true;
        else if (a == "--variant") variant = next();
        else if (a == "--relay") relay = next();
        else if (a == "--seconds") seconds_alive = std::stol(next());
        else if (a == "--port") port = std::stol(next());
        else if (a == "--peer-id") peer_hex = next();
        else if (a == "--identity-seed") identity_seed = std::stol(next());
        else if (a == "--seed") rseed = std::stol(next());
        else if (a == "--chunk-id-of") chunk_id_of = next();
    }
    if (cmd == "peer") {
        signal(SIGPIPE, SIG_IGN);
        std::clog.setstate(std::ios::failbit);
        std::mt19937_64 rng(static_cast<std::uint64_t>(rseed));
        auto rnd_bytes = [&](std::size_t n) { std::vector<std::uint8_t> v(n); for (auto& b : v) b = static_cast<std::uint8_t>(rng()); return v; };
        PeerId did{};
        for (std::size_t i = 0; i < 32 && 2 * i + 1 < peer_hex.size(); ++i) did[i] = static_cast<std::uint8_t>(std::stoi(peer_hex.substr(2 * i, 2), nullptr, 16));
        {
            Config dc{};
            dc.identity_seed = static_cast<std::uint32_t>(identity_seed);
            dc.nat_stun_enabled = false;
            dc.relay_enabled = false;
            Node shadow(did, dc);   // same seed -> same public identity as the daemon
            const auto pub = shadow.public_identity();
            Config cfg{};
            cfg.identity_seed = static_cast<std::uint32_t>(rng());
            cfg.announce_pow_difficulty = 0;
            cfg.nat_stun_enabled = false;
            cfg.relay_enabled = false;
            cfg.shard_threshold = 2;
            cfg.shard_total = 3;
            cfg.key_rotation_interval = std::chrono::seconds(3600);
            PeerId pid{};
            for (auto& b : pid) b = static_cast<std::uint8_t>(rng());
            Node peer(pid, cfg);
            peer.start_transport(0);
            unsigned long ops = 0, handshakes = 0, connects = 0, announces = 0, pushes = 0;
            std::vector<std::pair<ChunkId, std::string>> mine;
            const auto t_end = std::chrono::steady_clock::now() + std::chrono::seconds(seconds_alive);
            unsigned nchunk = 0;
            while (std::chrono::steady_clock::now() < t_end) {
                const auto k = rng() % 8;
                if (k == 0 || !peer.sessions_.is_connected(did)) {
                    // the nonce the daemon would present for us, computed by its identity clone
                    const auto work = shadow.generate_handshake_work(pid);
                    if (work && peer.perform_handshake(did, pub, *work)) ++handshakes;
                    if (peer.connect_peer(did, "127.0.0.1", static_cast<std::uint16_t>(port))) ++connects;
                } else if (const auto key = peer.session_key(did)) {
                    protocol::Message m{};
                    m.version = 4;
                    if (k <= 3) {
                        ChunkId cid{};
                        for (auto& b : cid) b = static_cast<std::uint8_t>(rng());
                        cid[1] = static_cast<std::uint8_t>(nchunk++);
                        auto manifest = peer.store_chunk(cid, rnd_bytes(64), std::chrono::seconds(600));
                        m.type = protocol::MessageType::Announce;
                        protocol::AnnouncePayload ap{};
                        ap.chunk_id = cid; ap.peer_id = peer.id(); ap.endpoint = "127.0.0.1:" + std::to_string(peer.transport_port()); ap.ttl = std::chrono::seconds(300);
                        ap.manifest_uri = protocol::encode_manifest(manifest);
                        if (rng() % 2) ap.assigned_shards = {manifest.shards[0].index};
                        m.payload = ap;
                        mine.emplace_back(cid, ap.manifest_uri);
                        ++announces;
                    } else if (k == 4 && !mine.empty()) {
                        const auto& [cid, uri] = mine[rng() % mine.size()];
                        const auto rec = peer.export_chunk_record(cid);
                        if (!rec) continue;
                        m.type = protocol::MessageType::Chunk;
                        protocol::ChunkPayload cp{};
                        cp.chunk_id = cid; cp.data = rec->data; cp.ttl = std::chrono::seconds(300);
                        m.payload = cp;
                        ++pushes;
                    } else if (k == 5) {
                        m.type = protocol::MessageType::Request;
                        ChunkId cid{};
                        cid.fill(0xCC);
                        m.payload = protocol::RequestPayload{cid, peer.id()};
                    } else {
                        m.type = protocol::MessageType::Acknowledge;
                        PeerId x{};
                        for (auto& b : x) b = static_cast<std::uint8_t>(rng());
                        m.payload = protocol::AcknowledgePayload{x, peer.id(), (rng() % 2) == 0};
                    }
                    peer.send_secure(did, protocol::encode_signed(m, *key));
                }
                ++ops;
                std::this_thread::sleep_for(std::chrono::microseconds(200 + rng() % 3000));
            }
            std::cout << "PEER ops=" << ops << " handshakes=" << handshakes << " connects=" << connects << " announces=" << announces << " pushes=" << pushes << std::endl;
            peer.stop_transport();
            std::this_thread::sleep_for(std::chrono::milliseconds(300));
            _exit(0);   // detached reader threads may still be finishing; object life-time at exit is not under test here
        }
    }
    const auto payload = slurp(payload_path);
    if (cmd == "make") {
        protocol::Manifest m{};
        const auto digest = ref::sha256(payload);
        m.chunk_id = digest;
        m.chunk_hash = digest;
        // a caller-chosen chunk id (Node::store_chunk takes any id), here the hash of other bytes, e.g. of an older version
        if (!chunk_id_of.empty()) m.chunk_id = ref::sha256(slurp(chunk_id_of));
        const auto key = crypto::CryptoManager::generate_key();
        const auto sealed = crypto::CryptoManager::encrypt_with_key(key, m.chunk_id, payload);
        m.nonce = sealed.nonce;
        m.threshold = 2;
        m.total_shares = 3;
        for (auto& s : crypto::Shamir::split(key.bytes, 2, 3)) m.shards.push_back(protocol::KeyShard{s.index, s.value});
        m.expires_at = std::chrono::system_clock::now() + std::chrono::seconds(expired ? -100 : ttl);
        if (has_filename) m.metadata["filename"] = unhex(filename_hex);
        for (auto& h : hints) {
            const auto p = split(h, ',', 4);
            if (p.size() == 4) m.discovery_hints.push_back(protocol::DiscoveryHint{p[0], p[1], p[2], static_cast<std::uint8_t>(std::stoi(p[3]))});
        }
        for (auto& f : fallbacks) {
            const auto p = split(f, ',', 2);
            m.fallback_hints.push_back(protocol::FallbackHint{p[0], static_cast<std::uint8_t>(p.size() > 1 ? std::stoi(p[1]) : 0)});
        }
        m.security.token_challenge_bits = static_cast<std::uint8_t>(bits);
        spit(uri_out, protocol::encode_manifest(m));
        if (!cipher_out.empty()) spit(cipher_out, std::string(sealed.data.begin(), sealed.data.end()));
        return 0;
    }
    if (cmd == "liar") {
        Config cfg{};
        cfg.identity_seed = 4242;
        cfg.handshake_pow_difficulty = 0;
        cfg.announce_pow_difficulty = 0;
        cfg.nat_stun_enabled = false;
        cfg.shard_threshold = 2;
        cfg.shard_total = 3;
        cfg.upload_max_parallel_transfers = 0;
        cfg.upload_max_transfers_per_peer = 0;
        cfg.relay_enabled = !relay.empty();
        if (!relay.empty()) {
            const auto p = split(relay, ':', 2);
            cfg.relay_endpoints.push_back(Config::RelayEndpoint{p[0], static_cast<std::uint16_t>(std::stoi(p[1]))});
        }
        PeerId id{};
        id.fill(0x5C);
        Node node(id, cfg);
        node.start_transport(0);
        const auto digest = ref::sha256(payload);
        ChunkId cid = digest;
        auto manifest = node.store_chunk(cid, payload, std::chrono::seconds(ttl));
        // the lie
        auto& rec = node.chunk_store_.chunks_.at(chunk_id_to_string(cid));
        if (variant == "truncated") rec.data.resize(rec.data.size() / 2);
        else if (variant == "extended") rec.data.insert(rec.data.end(), 16, 0x41);
        else if (variant == "other") { for (auto& b : rec.data) b ^= 0x5a; }
        else if (variant == "empty") rec.data.clear();
        else if (variant == "otherchunk") {
            // bytes that are a valid ciphertext, but of a different payload under the same key material
            std::vector<std::uint8_t> other(payload.size(), 0x7e);
            std::vector<crypto::ShamirShare> shares;
            for (auto& s : manifest.shards) shares.push_back(crypto::ShamirShare{s.index, s.value});
            crypto::Key k{};
            k.bytes = crypto::Shamir::combine(shares, manifest.threshold);
            std::vector<std::uint8_t> out;
            crypto::ChaCha20::apply(k, manifest.nonce, other, out, ref::le32(cid.data()));
            rec.data = out;
        }
        manifest.discovery_hints.clear();
        manifest.fallback_hints.clear();
        if (relay.empty()) {
            manifest.discovery_hints.push_back(protocol::DiscoveryHint{"transport", "tcp", "127.0.0.1:" + std::to_string(node.transport_port()), 0});
        } else {
            // wait until the relay client has registered
            for (int i = 0; i < 200; ++i) {
                if (node.relay_client_) if (const auto h = node.relay_client_->current_hint(0)) { manifest.discovery_hints.push_back(*h); break; }
                std::this_thread::sleep_for(std::chrono::milliseconds(50));
            }
            if (manifest.discovery_hints.empty()) { std::cerr << "relay registration failed" << std::endl; return 3; }
        }
        manifest.security.token_challenge_bits = 0;
        spit(uri_out + ".tmp", protocol::encode_manifest(manifest));
        std::rename((uri_out + ".tmp").c_str(), uri_out.c_str());
        for (long s = 0; s < seconds_alive * 10; ++s) std::this_thread::sleep_for(std::chrono::milliseconds(100));
        node.stop_transport();
        return 0;
    }
    return 2;
}

#pragma once
// Wrappers around anonymous-namespace helpers of src/core/Node.cpp and src/security/StoreProof.cpp.
#include <array>
#include <cstdint>
#include <span>

#include "ephemeralnet/Types.hpp"
#include "ephemeralnet/protocol/Message.hpp"
#include "ephemeralnet/security/StoreProof.hpp"

namespace tu_node {
std::size_t count_leading_zero_bits(const std::array<std::uint8_t, 32>& digest);
std::array<std::uint8_t, 32> handshake_digest(const ephemeralnet::PeerId& initiator, const ephemeralnet::PeerId& responder,
                                              std::uint32_t initiator_public, std::uint64_t nonce);
std::array<std::uint8_t, 32> announce_digest(const ephemeralnet::protocol::AnnouncePayload& payload);
}
namespace tu_storeproof {
std::size_t count_leading_zero_bits(std::span<const std::uint8_t> digest);
std::array<std::uint8_t, 32> digest(const ephemeralnet::security::StoreWorkInput& input, std::uint64_t nonce);
}

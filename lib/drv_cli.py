"""Black-box driver for the real `eph` / `eph-relay-server` binaries (sanitizer build): C30, C31 (CLI side),
C32, the `eph list` part of C29 and the real-daemon part of C35."""
import hashlib
import json
import os
import random
import re
import shutil
import signal
import socket
import struct
import subprocess
import threading
import time

import runner


# --------------------------------------------------------------------------- small utilities
class Part:
    def __init__(self, ctx):
        self.ctx = ctx
        self.res = runner.PartResult()
        self.name = ctx["part"]["name"]
        self.t0 = time.time()

    def note(self, k, n=1):
        self.res.counters[k] = self.res.counters.get(k, 0) + n
        if k.endswith("-runs") or k.endswith(".runs") or k.endswith("daemons-probed") or k.endswith("error-cases"):
            self.res.evaluations += n

    def sig(self, *items):
        h = hashlib.sha1(repr(items).encode()).digest()
        self.res.sigs.add(struct.unpack("<Q", h[:8])[0])

    def sample(self, obj):
        if len(self.res.samples) < 4:
            self.res.samples.append(obj)

    def violation(self, key, detail, case=None):
        self.res.violations.append({"key": key, "detail": detail, "case": case, "seed": self.ctx["seed"], "part": self.name, "exe": "drv_cli"})

    def inconclusive(self, why):
        self.res.inconclusive.append(why)

    def done(self):
        self.res.wall = time.time() - self.t0
        return self.res


_port_rng = random.Random(os.getpid() * 7919 + int(time.time() * 1000) % 100003)


_ports_handed_out = set()


def free_port():
    """A port for a daemon the driver is about to start.  Taken from below the ephemeral range (32768-60999 here), so that no
    outgoing connection of any program can be given the same number between this probe and the daemon's bind."""
    for _ in range(200):
        p = _port_rng.randrange(20000, 32000)
        if p in _ports_handed_out:      # never the same number twice (a daemon gets a control and a transport port)
            continue
        s = socket.socket()
        try:
            s.bind(("0.0.0.0", p))
        except OSError:
            s.close()
            continue
        s.close()
        _ports_handed_out.add(p)
        return p
    s = socket.socket()
    s.bind(("127.0.0.1", 0))
    p = s.getsockname()[1]
    s.close()
    return p


def bind_trouble(output):
    """The daemon could not get the port the driver chose for it: environment, never a verdict."""
    return "error 98" in output or "Address already in use" in output or "Failed to bind" in output


def san_env(rundir, tag):
    env = dict(os.environ)
    env["ASAN_OPTIONS"] = "abort_on_error=1:detect_leaks=0:log_path=%s" % os.path.join(rundir, "san.cli." + tag)
    env["UBSAN_OPTIONS"] = "print_stacktrace=1:halt_on_error=1:abort_on_error=1:log_path=%s" % os.path.join(rundir, "san.cli." + tag)
    env["TSAN_OPTIONS"] = "halt_on_error=0:exitcode=0:second_deadlock_stack=1:history_size=5:log_path=%s" % os.path.join(rundir, "san.tsan." + tag)
    env["HOME"] = rundir
    return env


def eph_path(ctx):
    return runner.exe_path(ctx["bdir"], "eph")


def run_eph(ctx, args, cwd, tag, timeout=60, env_extra=None, stdin_data=None):
    env = san_env(ctx["rundir"], tag)
    if env_extra:
        env.update(env_extra)
    try:
        p = subprocess.run([eph_path(ctx)] + args, cwd=cwd, env=env, stdout=subprocess.PIPE, stderr=subprocess.PIPE, timeout=timeout,
                           input=stdin_data)
        return p.returncode, p.stdout.decode("utf-8", "replace"), p.stderr.decode("utf-8", "replace")
    except subprocess.TimeoutExpired as e:
        return "timeout", (e.stdout or b"").decode("utf-8", "replace"), (e.stderr or b"").decode("utf-8", "replace")


def crash_check(part, rc, out, err, what, rundir, tag):
    """A sanitizer abort / fatal signal of the CLI or daemon is always a violation."""
    if isinstance(rc, int) and rc < 0:
        texts = [err]
        for fn in os.listdir(rundir):
            if fn.startswith("san.cli." + tag):
                texts.append(open(os.path.join(rundir, fn), errors="replace").read())
        key = runner.crash_signature(texts) or ("signal:%d" % -rc)
        part.violation("%s:%s" % (what, key), {"stderr": err[-2000:], "stdout": out[-500:]})
        return True
    return False


class ScriptedControl(threading.Thread):
    """Minimal control endpoint operated by the harness: reads one request per connection, answers with `reply(fields)`."""

    def __init__(self, reply):
        super().__init__(daemon=True)
        self.reply = reply
        self.sock = socket.socket()
        self.sock.setsockopt(socket.SOL_SOCKET, socket.SO_REUSEADDR, 1)
        self.sock.bind(("127.0.0.1", 0))
        self.sock.listen(16)
        self.port = self.sock.getsockname()[1]
        self.requests = []
        self.stop_flag = False
        self.start()

    def run(self):
        self.sock.settimeout(0.2)
        while not self.stop_flag:
            try:
                c, _ = self.sock.accept()
            except socket.timeout:
                continue
            except OSError:
                break
            try:
                c.settimeout(5)
                buf = b""
                while b"\n\n" not in buf and len(buf) < 1 << 20:
                    d = c.recv(65536)
                    if not d:
                        break
                    buf += d
                fields = {}
                for line in buf.split(b"\n\n")[0].split(b"\n"):
                    if b":" in line:
                        k, v = line.split(b":", 1)
                        fields[k.decode("latin1").upper()] = v.decode("latin1")
                self.requests.append(fields)
                head, payload = self.reply(fields)
                c.sendall(head + payload)
            except OSError:
                pass
            finally:
                c.close()

    def close(self):
        self.stop_flag = True
        try:
            self.sock.close()
        except OSError:
            pass


def fetch_reply(payload, with_payload=True, size="body"):
    """size: "body" = SIZE header equals the body length (what an honest daemon sends), an int = that value, None = no SIZE header"""
    def reply(fields):
        if fields.get("COMMAND") != "FETCH":
            return b"STATUS:ERROR\nCODE:ERR_UNSUPPORTED_COMMAND\nMESSAGE:scripted endpoint\n\n", b""
        head = "STATUS:OK\nCODE:OK_FETCH\n"
        if size is not None:
            head += "SIZE:%d\n" % (len(payload) if size == "body" else size)
        head += "STREAM:CLIENT\n"
        if with_payload:
            head += "PAYLOAD-LENGTH:%d\n" % len(payload)
        return (head + "\n").encode(), payload if with_payload else b""
    return reply


def payloadless_reply(output_path, size):
    """STATUS:OK without a body, naming a file on the client's host (what a daemon answers when it wrote the file itself)."""
    def reply(fields):
        if fields.get("COMMAND") != "FETCH":
            return b"STATUS:ERROR\nCODE:ERR_UNSUPPORTED_COMMAND\nMESSAGE:scripted endpoint\n\n", b""
        return ("STATUS:OK\nCODE:OK_FETCH\nSIZE:%d\nOUTPUT:%s\n\n" % (size, output_path)).encode(), b""
    return reply


def mtool(ctx, args, timeout=30):
    exe = runner.exe_path(ctx["bdir"], "mtool")
    env = san_env(ctx["rundir"], "mtool")
    return subprocess.run([exe] + args, env=env, stdout=subprocess.PIPE, stderr=subprocess.PIPE, timeout=timeout)


def wait_file(path, timeout):
    t0 = time.time()
    while time.time() - t0 < timeout:
        if os.path.exists(path) and os.path.getsize(path) > 0:
            return True
        time.sleep(0.02)
    return False


def variants(rng, payload):
    other = bytes((b ^ 0x5A) for b in payload) if payload else b"x"
    return {
        "honest": payload,
        "truncated": payload[: len(payload) // 2],
        "extended": payload + b"A" * (1 + rng.randrange(32)),
        "other-same-length": other,
        "empty": b"",
        "other-chunk": bytes(rng.randrange(256) for _ in range(len(payload) or 5)),
    }


# --------------------------------------------------------------------------- C30
def c30(ctx):
    part = Part(ctx)
    rng = random.Random(ctx["seed"] * 7919 + 30)
    rundir = ctx["rundir"]
    work = os.path.join(rundir, "c30")
    os.makedirs(work, exist_ok=True)
    thorough = ctx["thorough"]
    rounds = 30 if thorough else 1
    paths = ["control-hint", "fallback", "local-daemon", "transport"] + (["relay"] if thorough else [])
    case = 0
    relay_proc = None
    relay_port = None
    if "relay" in paths:
        relay_port = free_port()
        relay_proc = subprocess.Popen([runner.exe_path(ctx["bdir"], "eph-relay-server"), "--listen", "127.0.0.1:%d" % relay_port],
                                      stdout=subprocess.DEVNULL, stderr=subprocess.DEVNULL, env=san_env(rundir, "relay"))
        time.sleep(0.4)
        if relay_proc.poll() is not None:
            paths.remove("relay")
            part.note("paths.relay-unavailable")
    try:
        for rnd in range(rounds):
            for path in paths:
                payload = bytes(rng.randrange(256) for _ in range(rng.choice([1, 17, 64, 1000, 5000]) if rnd else 700))
                want_hash = hashlib.sha256(payload).hexdigest()
                pfile = os.path.join(work, "payload.bin")
                open(pfile, "wb").write(payload)
                vs = variants(rng, payload)
                size_lie = {}
                if path in ("control-hint", "fallback", "local-daemon"):
                    vs["payloadless-output-names-other-file"] = None   # no body at all; OUTPUT names an existing file with other bytes
                    # informational headers that disagree with the body: SIZE kept at the genuine length / zero / absent
                    tail = b"T" * (1 + rng.randrange(16))
                    vs["extended-with-genuine-SIZE"] = payload + tail
                    size_lie["extended-with-genuine-SIZE"] = len(payload)
                    vs["other-with-SIZE-zero"] = bytes((b ^ 0x77) for b in payload) + b"z"
                    size_lie["other-with-SIZE-zero"] = 0
                    vs["extended-without-SIZE"] = payload + tail
                    size_lie["extended-without-SIZE"] = None
                    # a manifest whose chunk id is not the hash of its content (ids are caller-chosen; here the hash of an older
                    # version): the genuine bytes must arrive, bytes that hash to the id instead of the content hash must not
                    older = bytes((b ^ 0x3C) for b in payload) + b"v1"
                    older_file = os.path.join(work, "older.bin")
                    open(older_file, "wb").write(older)
                    vs["foreign-id-honest"] = payload
                    vs["foreign-id-bytes-hashing-to-the-chunk-id"] = older
                for vname, vbytes in vs.items():
                    case += 1
                    tag = "c30.%d" % case
                    outdir = os.path.join(work, "out%d" % case)
                    os.makedirs(outdir)
                    outfile = os.path.join(outdir, "result.bin")
                    uri_file = os.path.join(work, "uri%d.txt" % case)
                    dead = free_port()
                    scripted = None
                    liar = None
                    args = ["--yes"]
                    try:
                        if path in ("control-hint", "fallback", "local-daemon"):
                            if vbytes is None:
                                decoy = os.path.join(work, "decoy%d.bin" % case)
                                open(decoy, "wb").write(bytes((b ^ 0x33) for b in payload) + b"decoy")
                                scripted = ScriptedControl(payloadless_reply(decoy, len(payload)))
                            elif vname in size_lie:
                                scripted = ScriptedControl(fetch_reply(vbytes, size=size_lie[vname]))
                            else:
                                scripted = ScriptedControl(fetch_reply(vbytes))
                            margs = ["make", "--payload", pfile, "--uri-out", uri_file]
                            if vname.startswith("foreign-id"):
                                margs += ["--chunk-id-of", older_file]
                            if path == "control-hint":
                                margs += ["--hint", "control,control,127.0.0.1:%d,0" % scripted.port]
                                args += ["--control-port", str(dead)]
                            elif path == "fallback":
                                margs += ["--fallback", "control://127.0.0.1:%d,0" % scripted.port]
                                args += ["--control-port", str(dead)]
                            else:
                                args += ["--control-port", str(scripted.port)]
                            r = mtool(ctx, margs)
                            if r.returncode != 0:
                                part.inconclusive("mtool make failed: " + r.stderr.decode()[:200])
                                continue
                        else:
                            lie = {"honest": "honest", "truncated": "truncated", "extended": "extended", "other-same-length": "other", "empty": "empty", "other-chunk": "otherchunk"}[vname]
                            largs = ["liar", "--payload", pfile, "--variant", lie, "--uri-out", uri_file, "--seconds", "40"]
                            if path == "relay":
                                largs += ["--relay", "127.0.0.1:%d" % relay_port]
                            liar = subprocess.Popen([runner.exe_path(ctx["bdir"], "mtool")] + largs, stdout=subprocess.DEVNULL, stderr=subprocess.DEVNULL, env=san_env(rundir, "liar"))
                            if not wait_file(uri_file, 15):
                                part.inconclusive("liar node did not come up (%s)" % path)
                                continue
                            args += ["--control-port", str(dead)]
                        uri = open(uri_file).read().strip()
                        rc, out, err = run_eph(ctx, args + ["fetch", uri, "--out", outfile], work, tag, timeout=90)
                        part.note("fetch.runs")
                        part.note("fetch.path.%s" % path)
                        if rc == "timeout":
                            part.inconclusive("eph fetch timed out (%s/%s)" % (path, vname))
                            continue
                        if crash_check(part, rc, out, err, "C30:cli-crash", rundir, tag):
                            continue
                        exists = os.path.exists(outfile)
                        detail = {"path": path, "response": vname, "payload_len": len(payload), "exit": rc, "stdout": out[-400:], "stderr": err[-300:]}
                        if exists:
                            got = open(outfile, "rb").read()
                            part.note("fetch.files-written")
                            if hashlib.sha256(got).hexdigest() != want_hash:
                                part.violation("C30:fetch:wrote-bytes-that-do-not-match-manifest:%s" % path, dict(detail, written_len=len(got)), case)
                            elif vname in ("honest", "foreign-id-honest"):
                                part.note("fetch.honest-successes")
                        if vname.startswith("foreign-id"):
                            part.note("fetch.manifests-with-caller-chosen-chunk-id")
                        if vname in ("honest", "foreign-id-honest"):
                            part.note("fetch.honest-runs")
                            if not exists or rc != 0:
                                part.violation("C30:fetch:honest-bytes-not-delivered:%s" % path, detail, case)
                        elif vbytes != payload:
                            part.note("fetch.dishonest-runs")
                            if rc == 0 and exists:
                                pass  # already judged by the hash above
                        if scripted is not None and not scripted.requests:
                            part.violation("harness:C30:scripted-endpoint-not-contacted:%s" % path, detail, case)
                        part.sig(path, vname, len(payload), exists, rc)
                        if case % 7 == 1:
                            part.sample(detail)
                    finally:
                        if scripted:
                            scripted.close()
                        if liar:
                            liar.kill()
                            liar.wait()
                        shutil.rmtree(outdir, ignore_errors=True)
    finally:
        if relay_proc:
            relay_proc.kill()
            relay_proc.wait()
    return part.done()


# --------------------------------------------------------------------------- C31 (CLI)
HOSTILE_NAMES = [b"../../etc/passwd", b"..\\..\\windows\\x", b"a/b/c", b"/abs/path", b"C:\\x\\y", b".", b"..", b"...", b" ", b"", b"./", b"../", b"foo/", b"foo/..", b"a\nb", b"a\rb",
                 b"nul\x01l", b".\x01.", b"\x01..", b"..\x7f", b".\x7f.", b"x:y", b"a*b?c", b"\"q\"", b"<a>|b", b"normal.txt", b"..a", b"a..", b"~", b"-rf", b"\xff\xfe.bin", b"\xc3\x28",
                 b"....//....//x", b"..././x", b"sub/../../../x", b"\\\\server\\share\\x", b"\x00", b"a\x00b", b".hidden", b"con", b"x" * 300, b"../" * 50 + b"x", b"." * 300,
                 # overlong UTF-8 spellings of '/', '\\' and '.', and other ill-formed sequences a "normalising" step might decode
                 b"..\xc0\xaf..\xc0\xafescape.txt", b"\xe0\x80\xaf", b"a\xc1\x9cb", b"\xc0\xae\xc0\xae", b"\xc0\xae\xc0\xae\xc0\xafx", b"..\xe0\x80\xaf..\xe0\x80\xafy",
                 b"\xf0\x80\x80\xaf", b"\xed\xa0\x80", b"a\xc0\x80b", b"\xc0\x8a"]


def safe_name(name):
    if name in (b"", b".", b".."):
        return "dot-or-empty"
    for ch in name:
        if ch in (0x2F, 0x5C):
            return "path-separator"
        if ch < 0x20 or ch == 0x7F:
            return "control-character"
        if ch in b':*?"<>|':
            return "reserved-character"
    return None


def tree(root):
    out = set()
    for d, dirs, files in os.walk(root):
        for f in files:
            out.add(os.path.join(d, f))
        for x in dirs:
            out.add(os.path.join(d, x) + os.sep)
    return out


def c31(ctx):
    part = Part(ctx)
    rng = random.Random(ctx["seed"] * 7919 + 31)
    rundir = ctx["rundir"]
    names = list(HOSTILE_NAMES)
    # hostile pieces at the end (as the extension), at the start and in the middle of a filler that takes the name beyond the
    # 255-byte cap: whatever the shortening step keeps must be as clean as a short name
    for piece in (b".t\x01x:t|\\z", b".x*y?z", b"\\..\\w", b".\x7f\"<>", b"/../q"):
        names.append(b"a" * 300 + piece)
    names.append(b"\x01:*" + b"b" * 300)
    names.append(b"c" * 250 + b"\x1f|?" + b"c" * 250)
    names.append(b"d" * 252 + b".\x02:e")
    n = 1500 if ctx["thorough"] else 68
    while len(names) < n:
        k = rng.randrange(6)
        if k == 5:
            piece = rng.choice(HOSTILE_NAMES) if rng.random() < 0.5 else bytes(rng.randrange(256) for _ in range(rng.randrange(1, 30)))
            total = rng.choice([250, 254, 255, 256, 257, 260, 300, 511, 512, 1000])
            fill = max(1, total - len(piece))
            fc = rng.choice([b"a", b"b", b".", b" ", b"_"])
            how = rng.randrange(4)
            names.append([piece + fc * fill, fc * (fill // 2) + piece + fc * (fill - fill // 2), fc * fill + piece, fc * max(1, fill - 1) + b"." + piece][how])
        elif k == 0:
            names.append(bytes(rng.randrange(256) for _ in range(rng.randrange(1, 40))))
        elif k == 1:
            base = bytearray(rng.choice(HOSTILE_NAMES))
            if base:
                base.insert(rng.randrange(len(base) + 1), rng.choice(b"/\\\x00\x1f.:"))
            names.append(bytes(base))
        elif k == 2:
            names.append(b"".join(rng.choice([b"../", b"..\\", b"./", b"//"]) for _ in range(rng.randrange(1, 12))) + bytes(rng.randrange(33, 127) for _ in range(rng.randrange(0, 8))))
        elif k == 3:
            names.append(b"." + bytes(rng.randrange(0, 32) for _ in range(rng.randrange(0, 4))) + b".")
        else:
            names.append(bytes(rng.randrange(32, 127) for _ in range(rng.randrange(1, 400))))
    names = names[:n]
    payload = b"C31 payload " + os.urandom(16)
    scripted = ScriptedControl(fetch_reply(payload))
    try:
        for i, name in enumerate(names):
            sandbox = os.path.join(rundir, "c31", "s%d" % i)
            cwd = os.path.join(sandbox, "work", "cwd")
            os.makedirs(cwd)
            pfile = os.path.join(sandbox, "payload.bin")
            open(pfile, "wb").write(payload)
            uri_file = os.path.join(sandbox, "uri.txt")
            r = mtool(ctx, ["make", "--payload", pfile, "--uri-out", uri_file, "--filename-hex", name.hex()])
            if r.returncode != 0:
                part.inconclusive("mtool failed")
                continue
            uri = open(uri_file).read().strip()
            mode = i % 3
            target = os.path.join(sandbox, "work", "t")
            if mode == 0:
                out_arg = target + "/"          # not existing, trailing slash
            elif mode == 1:
                os.makedirs(target)
                out_arg = target                # existing directory
            else:
                out_arg = None                   # --fetch-default-dir
            before = tree(sandbox)
            args = ["--yes", "--control-port", str(scripted.port)]
            if out_arg is None:
                os.makedirs(target)
                before = tree(sandbox)
                args += ["--fetch-default-dir", target, "fetch", uri]
            else:
                args += ["fetch", uri, "--out", out_arg]
            tag = "c31.%d" % i
            rc, out, err = run_eph(ctx, args, cwd, tag, timeout=60)
            part.note("names.cli-runs")
            if rc == "timeout":
                part.inconclusive("eph fetch timed out")
                continue
            if crash_check(part, rc, out, err, "C31:cli-crash", rundir, tag):
                continue
            after = tree(sandbox)
            new = sorted(after - before)
            new_files = [p for p in new if not p.endswith(os.sep)]
            detail = {"metadata_filename_hex": name.hex()[:200], "mode": ["new-dir-trailing-slash", "existing-dir", "default-dir"][mode], "exit": rc, "new_entries": [os.path.relpath(p, sandbox) for p in new][:6], "stderr": err[-200:]}
            if rc != 0 or not new_files:
                part.violation("C31:cli:fetch-into-directory-failed", detail, i)
            else:
                if len(new_files) != 1:
                    part.violation("C31:cli:more-than-one-file-created", detail, i)
                for p in new_files:
                    parent = os.path.dirname(p)
                    base = os.path.basename(p).encode("utf-8", "surrogateescape")
                    if os.path.realpath(parent) != os.path.realpath(target):
                        part.violation("C31:cli:file-created-outside-chosen-directory", detail, i)
                    why = safe_name(base)
                    if why:
                        part.violation("C31:cli:unsafe-file-name:" + why, detail, i)
                    if open(p, "rb").read() != payload:
                        part.violation("C31:cli:wrong-bytes", detail, i)
                    part.note("names.files-created")
                    if safe_name(name) is not None:
                        part.note("names.hostile-metadata-neutralised")
                extra_dirs = [p for p in new if p.endswith(os.sep) and os.path.realpath(p.rstrip(os.sep)) != os.path.realpath(target)]
                if extra_dirs:
                    part.violation("C31:cli:directories-created-outside-target", detail, i)
            part.sig(name, mode)
            if i % 17 == 0:
                part.sample(detail)
            shutil.rmtree(sandbox, ignore_errors=True)
    finally:
        scripted.close()
    return part.done()


# --------------------------------------------------------------------------- daemon helper
class DaemonProc:
    def __init__(self, ctx, args, tag, cwd):
        self.ctx = ctx
        self.tag = tag
        env = san_env(ctx["rundir"], tag)
        self.out = open(os.path.join(ctx["rundir"], "daemon.%s.out" % tag), "wb")
        self.p = subprocess.Popen([eph_path(ctx)] + args + ["serve"], cwd=cwd, env=env, stdout=self.out, stderr=subprocess.STDOUT, stdin=subprocess.DEVNULL)

    def alive(self):
        return self.p.poll() is None

    def kill(self):
        if self.alive():
            self.p.kill()
        self.p.wait()
        self.out.close()

    def output(self):
        return open(self.out.name, errors="replace").read()


def control_request(port, head, payload=b"", timeout=10, read=True):
    s = socket.socket()
    s.settimeout(timeout)
    s.connect(("127.0.0.1", port))
    s.sendall(head.encode() + payload)
    if not read:
        return s
    buf = b""
    try:
        while True:
            d = s.recv(65536)
            if not d:
                break
            buf += d
    except socket.timeout:
        pass
    s.close()
    fields = {}
    last = None
    for line in buf.split(b"\n\n")[0].split(b"\n"):
        if line.startswith(b" ") and last:
            fields[last] += "\n" + line[1:].decode("utf-8", "replace")
        elif b":" in line:
            k, v = line.split(b":", 1)
            last = k.decode()
            fields[last] = v.decode("utf-8", "replace")
    return fields


def wait_control(port, timeout=15):
    t0 = time.time()
    while time.time() - t0 < timeout:
        try:
            f = control_request(port, "COMMAND:PING\n\n", timeout=2)
            if f.get("STATUS") == "OK":
                return True
        except OSError:
            time.sleep(0.05)
    return False


# --------------------------------------------------------------------------- C32
BUILTIN = {"DEFAULT_TTL": 21600, "MIN_TTL": 30, "MAX_TTL": 21600, "KEY_ROTATION": 300, "ANNOUNCE_INTERVAL": 15, "ANNOUNCE_BURST": 4, "ANNOUNCE_WINDOW": 120, "ANNOUNCE_POW": 6,
           "FETCH_MAX_PARALLEL": 3, "UPLOAD_MAX_PARALLEL": 3, "STORAGE_PERSISTENT": 0, "ADVERTISE_AUTO_MODE": "on", "CONTROL_STREAM_MAX": 32 * 1024 * 1024}

# setting -> (flag, config path, value generator by layer index)
SETTINGS = {
    "DEFAULT_TTL": ("--default-ttl", ("node", "default_ttl_seconds"), lambda i: 200 + i),
    "MIN_TTL": ("--min-ttl", ("node", "min_ttl_seconds"), lambda i: 40 + i),
    "MAX_TTL": ("--max-ttl", ("node", "max_ttl_seconds"), lambda i: 3000 + i),
    "KEY_ROTATION": ("--key-rotation", ("node", "key_rotation_seconds"), lambda i: 100 + i),
    "ANNOUNCE_INTERVAL": ("--announce-interval", ("announce", "min_interval"), lambda i: 20 + i),
    "ANNOUNCE_BURST": ("--announce-burst", ("announce", "burst_limit"), lambda i: 7 + i),
    "ANNOUNCE_WINDOW": ("--announce-window", ("announce", "burst_window"), lambda i: 200 + i),
    "ANNOUNCE_POW": ("--announce-pow", ("announce", "pow_difficulty"), lambda i: 1 + i),
    "FETCH_MAX_PARALLEL": ("--fetch-parallel", ("node", "fetch_max_parallel"), lambda i: 10 + i),
    "UPLOAD_MAX_PARALLEL": ("--upload-parallel", ("node", "upload_max_parallel"), lambda i: 20 + i),
    "CONTROL_STREAM_MAX": ("--max-store-bytes", ("control", "stream_max_bytes"), lambda i: 1000000 + i),
    "ADVERTISE_AUTO_MODE": ("--advertise-auto", ("control", "advertise_auto"), lambda i: ["off", "warn", "off", "warn", "off"][i]),
    "TOKEN": ("--control-token", ("control", "token"), lambda i: "tok-layer-%d" % i),
    "STORAGE_PERSISTENT": (None, ("storage", "persistent"), lambda i: [True, False, True, False, True][i]),
}
LAYERS = ["flag", "env", "profile", "parent", "grandparent"]
ZERO_IS_A_VALUE = {"ANNOUNCE_POW", "FETCH_MAX_PARALLEL", "UPLOAD_MAX_PARALLEL", "CONTROL_STREAM_MAX"}


def set_path(d, path, value):
    for seg in path[:-1]:
        d = d.setdefault(seg, {})
    d[path[-1]] = value


def to_yaml(obj, indent=0):
    lines = []
    for k, v in obj.items():
        if isinstance(v, dict):
            lines.append(" " * indent + "%s:" % k)
            lines.append(to_yaml(v, indent + 2))
        elif isinstance(v, bool):
            lines.append(" " * indent + "%s: %s" % (k, "true" if v else "false"))
        elif isinstance(v, int):
            lines.append(" " * indent + "%s: %d" % (k, v))
        else:
            lines.append(" " * indent + "%s: \"%s\"" % (k, v))
    return "\n".join(l for l in lines if l)


def c32(ctx):
    part = Part(ctx)
    rng = random.Random(ctx["seed"] * 7919 + 32)
    rundir = ctx["rundir"]
    n = 1500 if ctx["thorough"] else 40
    for i in range(n):
        work = os.path.join(rundir, "c32", "c%d" % i)
        os.makedirs(work)
        kind = "ok" if i % 5 != 4 else rng.choice(["cycle", "self-cycle", "missing-parent", "missing-profile", "missing-env", "no-environments"])
        use_env = rng.random() < 0.7
        depth = rng.randrange(3)       # number of ancestors of the selected profile
        names = ["sel", "par", "gpar"][: depth + 1]
        profiles = {nm: {} for nm in names}
        for j in range(depth):
            profiles[names[j]]["extends"] = names[j + 1]
        env_over = {}
        flags = []
        expected = {}
        assignment = {}
        for setting, (flag, path, gen) in SETTINGS.items():
            chosen = [l for l in LAYERS if rng.random() < 0.45]
            if "env" in chosen and not use_env:
                chosen.remove("env")
            if "parent" in chosen and depth < 1:
                chosen.remove("parent")
            if "grandparent" in chosen and depth < 2:
                chosen.remove("grandparent")
            if "flag" in chosen and flag is None:
                chosen.remove("flag")
            assignment[setting] = chosen
            values = {l: gen(LAYERS.index(l)) for l in chosen}
            # a flag given with the value 0 (no proof of work, unlimited parallelism / stream size) is still a flag
            if "flag" in chosen and setting in ZERO_IS_A_VALUE and rng.random() < 0.4:
                values["flag"] = 0
                part.note("config.flags-set-to-zero")
            for l in chosen:
                v = values[l]
                if l == "flag":
                    flags += [flag, str(v)]
                elif l == "env":
                    set_path(env_over, path, v)
                elif l == "profile":
                    set_path(profiles["sel"], path, v)
                elif l == "parent":
                    set_path(profiles["par"], path, v)
                else:
                    set_path(profiles["gpar"], path, v)
            if chosen:
                top = min(chosen, key=LAYERS.index)
                expected[setting] = values[top]
        doc = {"profiles": profiles}
        env_name = None
        if use_env:
            env_name = "stage"
            env_node = dict(env_over)
            if rng.random() < 0.5:
                env_node = {"overrides": env_over}
            doc["environments"] = {env_name: env_node}
        select_via_env = use_env and rng.random() < 0.3
        if select_via_env:
            doc["environments"][env_name]["profile"] = "sel"
        profile_arg = "sel"
        if kind == "cycle" and depth >= 1:
            profiles[names[-1]]["extends"] = "sel"
        elif kind == "cycle":
            profiles["sel"]["extends"] = "sel"
        elif kind == "self-cycle":
            profiles["sel"]["extends"] = "sel"
        elif kind == "missing-parent":
            profiles[names[-1]]["extends"] = "nowhere"
        elif kind == "missing-profile":
            profile_arg = "absent"
            select_via_env = False
        elif kind == "missing-env":
            env_name = "absent-env"
            use_env = True
        elif kind == "no-environments":
            doc.pop("environments", None)
            env_name = "stage"
            use_env = True
        as_yaml = rng.random() < 0.5
        cfg_path = os.path.join(work, "eph.yaml" if as_yaml else "eph.json")
        open(cfg_path, "w").write(to_yaml(doc) + "\n" if as_yaml else json.dumps(doc, indent=1))
        cport, tport = free_port(), free_port()
        args = ["--config", cfg_path]
        if not select_via_env:
            args += ["--profile", profile_arg]
        if use_env:
            args += ["--env", env_name]
        args += flags + ["--control-port", str(cport), "--transport-port", str(tport), "--storage-dir", os.path.join(work, "st"), "--yes"]
        tag = "c32.%d" % i
        d = DaemonProc(ctx, args, tag, work)
        try:
            detail = {"kind": kind, "format": "yaml" if as_yaml else "json", "depth": depth, "env": use_env, "assignment": {k: v for k, v in assignment.items() if v}, "args": " ".join(args[:12])}
            if kind != "ok":
                # must exit non-zero with an E_CONFIG_* code, within the watchdog
                try:
                    rc = d.p.wait(timeout=20)
                except subprocess.TimeoutExpired:
                    part.violation("C32:config:bad-profile-graph-not-reported:" + kind, detail, i)
                    continue
                outp = d.output()
                part.note("config.error-cases")
                if rc < 0:
                    part.violation("C32:daemon-crash:" + (runner.crash_signature([outp]) or "signal:%d" % -rc), dict(detail, output=outp[-800:]), i)
                elif rc == 0 or "E_CONFIG" not in outp:
                    part.violation("C32:config:bad-profile-graph-not-reported:" + kind, dict(detail, exit=rc, output=outp[-400:]), i)
                part.sig(kind, depth, use_env)
                continue
            if not wait_control(cport, 20):
                if bind_trouble(d.output()):
                    # environment: the case is skipped (the minimum numbers of probed daemons still have to be met);
                    # only a run in which this keeps happening is inconclusive
                    part.note("config.cases-skipped-port-taken")
                    if part.res.counters.get("config.cases-skipped-port-taken", 0) > 3:
                        part.inconclusive("daemons repeatedly could not bind the ports chosen by the driver")
                else:
                    part.violation("C32:daemon:valid-configuration-did-not-start", dict(detail, output=d.output()[-600:]), i)
                continue
            tok = expected.get("TOKEN")
            head = "COMMAND:DEFAULTS\n" + ("TOKEN:%s\n" % tok if tok else "") + "\n"
            f = control_request(cport, head)
            part.note("config.daemons-probed")
            # the node keeps the default TTL inside the effective [min, max] window (C02), whichever layers set them
            eff_min = expected.get("MIN_TTL", BUILTIN["MIN_TTL"])
            eff_max = expected.get("MAX_TTL", BUILTIN["MAX_TTL"])
            eff_default = min(max(expected.get("DEFAULT_TTL", BUILTIN["DEFAULT_TTL"]), eff_min), eff_max)
            for setting in SETTINGS:
                if setting == "TOKEN":
                    continue
                want = expected.get(setting, BUILTIN[setting])
                if setting == "DEFAULT_TTL":
                    want = eff_default
                if isinstance(want, bool):
                    want = 1 if want else 0
                got = f.get(setting)
                part.note("config.settings-compared")
                if str(got) != str(want):
                    top = min(assignment[setting], key=LAYERS.index) if assignment[setting] else "builtin-default"
                    part.violation("C32:precedence:%s:expected-value-of-%s" % (setting, top), dict(detail, setting=setting, want=want, got=got, layers=assignment[setting]), i)
            # token: probe with a STORE (refused without / with a lower layer's token, accepted with the expected one)
            body = b"x" * 8
            sf = control_request(cport, "COMMAND:STORE\nPAYLOAD-LENGTH:8\nTTL:%d\n\n" % (expected.get("MIN_TTL", 30) + 1), body)
            part.note("config.token-probes")
            if tok:
                if sf.get("STATUS") == "OK":
                    part.violation("C32:precedence:TOKEN:token-not-enforced", dict(detail, want=tok), i)
            for l in assignment["TOKEN"]:
                cand = SETTINGS["TOKEN"][2](LAYERS.index(l))
                if cand != tok:
                    sf2 = control_request(cport, "COMMAND:STATUS\nTOKEN:%s\n\n" % cand)
            part.sig(tuple(sorted((k, tuple(v)) for k, v in assignment.items())), depth, use_env, as_yaml)
            if i % 9 == 0:
                part.sample(detail)
        finally:
            d.kill()
            shutil.rmtree(work, ignore_errors=True)
    return part.done()


# --------------------------------------------------------------------------- C29: `eph list` against a real daemon
def c29_list(ctx):
    part = Part(ctx)
    rng = random.Random(ctx["seed"] * 7919 + 29)
    rundir = ctx["rundir"]
    runs = 25 if ctx["thorough"] else 2
    for i in range(runs):
        work = os.path.join(rundir, "c29", "r%d" % i)
        os.makedirs(work)
        cport, tport = free_port(), free_port()
        base = ["--control-port", str(cport), "--transport-port", str(tport), "--storage-dir", os.path.join(work, "st"), "--yes"]
        d = DaemonProc(ctx, base, "c29.%d" % i, work)
        try:
            if not wait_control(cport, 20):
                part.inconclusive("daemon did not start")
                continue
            n = rng.choice([0, 1, 2, 3, 5, 6]) if i else 3   # the daemon admits 6 STOREs per 30 s and client address (C28)
            ids = set()
            for k in range(n):
                f = os.path.join(work, "f%d.bin" % k)
                open(f, "wb").write(os.urandom(20 + k))
                rc, out, err = run_eph(ctx, base + ["store", f, "--ttl", "600"], work, "c29s.%d.%d" % (i, k))
                if rc != 0:
                    part.inconclusive("eph store failed: " + (err or out)[-200:])
                    continue
                ids.add(hashlib.sha256(open(f, "rb").read()).hexdigest())
            rc, out, err = run_eph(ctx, base + ["list"], work, "c29l.%d" % i)
            part.note("list.cli-runs")
            listed = set(re.findall(r"ID=([0-9a-f]{64})", out))
            m = re.search(r"Local chunks: (\d+)", out)
            detail = {"stored": len(ids), "listed": len(listed), "header": m.group(1) if m else None, "exit": rc}
            if crash_check(part, rc, out, err, "C29:cli-crash", rundir, "c29l.%d" % i):
                continue
            part.note("list.chunks-expected", len(ids))
            if listed != ids:
                part.violation("C29:eph-list:does-not-show-every-chunk", detail, i)
            if not m or int(m.group(1)) != len(ids):
                part.violation("C29:eph-list:wrong-count-line", detail, i)
            part.sig(n, i)
            part.sample(detail)
        finally:
            d.kill()
            shutil.rmtree(work, ignore_errors=True)
    return part.done()


# --------------------------------------------------------------------------- C35: the real daemon under hostile clients
def c35_daemon(ctx):
    part = Part(ctx)
    rng = random.Random(ctx["seed"] * 7919 + 35)
    rundir = ctx["rundir"]
    runs = 12 if ctx["thorough"] else 1
    for i in range(runs):
        work = os.path.join(rundir, "c35", "r%d" % i)
        os.makedirs(work)
        cport, tport = free_port(), free_port()
        base = ["--control-port", str(cport), "--transport-port", str(tport), "--storage-dir", os.path.join(work, "st"), "--yes"]
        d = DaemonProc(ctx, base, "c35.%d" % i, work)
        try:
            if not wait_control(cport, 20):
                part.inconclusive("daemon did not start")
                continue
            f = os.path.join(work, "f.bin")
            open(f, "wb").write(os.urandom(3000))
            rc, out, err = run_eph(ctx, base + ["store", f, "--ttl", "600"], work, "c35s.%d" % i)
            m = re.search(r"(eph://\S+)", out)
            uri = m.group(1) if m else None
            hostile = 0
            for k in range(40 if ctx["thorough"] else 25):
                kind = rng.randrange(7)
                try:
                    if kind <= 2 and uri:
                        s = control_request(cport, "COMMAND:FETCH\nMANIFEST:%s\nSTREAM:client\n\n" % uri, read=False)
                    elif kind == 3:
                        s = control_request(cport, "COMMAND:METRICS\n\n", read=False)
                    elif kind == 4:
                        s = control_request(cport, "COMMAND:LIST\n\n", read=False)
                    elif kind == 5:
                        s = socket.socket()
                        s.connect(("127.0.0.1", tport))
                        s.sendall(os.urandom(rng.randrange(0, 80)))
                    else:
                        s = control_request(cport, "COMMAND:FETCH\nMANIFEST:%s\nOUT:\n\n" % (uri or "eph://x"), read=False)
                    # reset without reading
                    s.setsockopt(socket.SOL_SOCKET, socket.SO_LINGER, struct.pack("ii", 1, 0))
                    s.close()
                    hostile += 1
                except OSError:
                    pass
                if not d.alive():
                    break
            part.note("daemon.hostile-connections", hostile)
            time.sleep(0.2)
            alive = d.alive()
            served = False
            if alive:
                rc, out, err = run_eph(ctx, base + ["status"], work, "c35st.%d" % i, timeout=40)
                served = rc == 0
            detail = {"hostile_connections": hostile, "alive": alive, "served": served, "daemon_output": d.output()[-600:]}
            part.note("daemon.runs")
            if not alive:
                rcode = d.p.poll()
                key = runner.crash_signature([d.output()]) or ("signal:%d" % -rcode if rcode and rcode < 0 else "exit:%s" % rcode)
                part.violation("C35:daemon:died-under-hostile-clients:" + key, detail, i)
            elif not served:
                part.violation("C35:daemon:honest-client-not-served-after-hostile-clients", detail, i)
            else:
                part.note("daemon.honest-status-served")
            part.sig(i, hostile)
            part.sample({"hostile_connections": hostile, "alive": alive, "served": served})
        finally:
            d.kill()
            shutil.rmtree(work, ignore_errors=True)
    return part.done()


# --------------------------------------------------------------------------- C36: the real `eph serve` under ThreadSanitizer
def c36_daemon(ctx):
    """The real daemon binary (tsan flavour: main.cpp's serve loop, ControlServer, Node, SessionManager as shipped) with
    concurrent control clients and real peer nodes (`mtool peer`, separate processes).  Every TSan report of the daemon
    process is classified by lib/post_race.py."""
    import glob
    import post_race
    part = Part(ctx)
    rng = random.Random(ctx["seed"] * 104729 + 36)
    rundir = ctx["rundir"]
    runs = 8 if ctx["thorough"] else 1
    seconds = 12 if ctx["thorough"] else 7
    mtool_exe = runner.exe_path(ctx["bdirs"]["asan"], "mtool")
    for i in range(runs):
        work = os.path.join(rundir, "c36d", "r%d" % i)
        os.makedirs(work)
        cport, tport = free_port(), free_port()
        peer_hex = "%064x" % rng.getrandbits(256)
        idseed = rng.randrange(1, 1 << 31)
        base = ["--control-port", str(cport), "--transport-port", str(tport), "--storage-dir", os.path.join(work, "st"), "--yes",
                "--identity-seed", str(idseed), "--peer-id", peer_hex, "--announce-pow", "0", "--key-rotation", "5"]
        tag = "c36d.%d" % i
        d = DaemonProc(ctx, base, tag, work)
        peers = []
        try:
            if not wait_control(cport, 40):
                part.inconclusive("daemon (tsan build) did not start")
                continue
            npeers = 2 + rng.randrange(2)
            env = san_env(rundir, "c36peer.%d" % i)
            for k in range(npeers):
                peers.append(subprocess.Popen([mtool_exe, "peer", "--port", str(tport), "--peer-id", peer_hex, "--identity-seed", str(idseed),
                                               "--seconds", str(seconds), "--seed", str(rng.randrange(1, 1 << 30))],
                                              env=env, stdout=subprocess.PIPE, stderr=subprocess.DEVNULL, cwd=work))
            stop_at = time.time() + seconds
            counts = {"ops": 0, "stores": 0, "fetches": 0}
            lock = threading.Lock()
            manifests = []

            def store_once(n):
                # STORE needs a proof of work over (chunk id, size, name): the real CLI computes it
                f = os.path.join(work, "up%d.bin" % n)
                open(f, "wb").write(os.urandom(64 + n))
                rc, out, err = run_eph(ctx, base + ["store", f, "--ttl", "120"], work, "c36s.%d.%d" % (i, n), timeout=90)
                m = re.search(r"(eph://\S+)", out)
                if m:
                    with lock:
                        manifests.append(m.group(1))
                        counts["stores"] += 1

            def storer():
                n = 0
                while time.time() < stop_at and n < 5:   # the daemon admits 6 STOREs per 30 s and client
                    store_once(n)
                    n += 1

            def client(seed):
                r = random.Random(seed)
                while time.time() < stop_at:
                    k = r.randrange(8)
                    try:
                        if k <= 2 and manifests:
                            with lock:
                                m = manifests[r.randrange(len(manifests))]
                            f = control_request(cport, "COMMAND:FETCH\nMANIFEST:%s\nSTREAM:client\n\n" % m, timeout=20)
                            if f.get("STATUS") == "OK":
                                with lock:
                                    counts["fetches"] += 1
                        else:
                            control_request(cport, "COMMAND:%s\n\n" % ["LIST", "STATUS", "DEFAULTS", "DIAGNOSTICS", "METRICS"][k % 5], timeout=20)
                        with lock:
                            counts["ops"] += 1
                    except OSError:
                        pass
                    time.sleep(r.random() * 0.004)

            threads = [threading.Thread(target=client, args=(rng.randrange(1 << 30),)) for _ in range(4)] + [threading.Thread(target=storer)]
            for t in threads:
                t.start()
            for t in threads:
                t.join()
            peer_ops = 0
            for p in peers:
                try:
                    out, _ = p.communicate(timeout=60)
                except subprocess.TimeoutExpired:
                    p.kill()
                    out = b""
                m = re.search(rb"PEER ops=(\d+) handshakes=(\d+) connects=(\d+) announces=(\d+) pushes=(\d+)", out)
                if m:
                    peer_ops += int(m.group(1))
                    part.note("daemon36.peer-announces", int(m.group(4)))
            alive = d.alive()
            if alive:
                d.p.send_signal(signal.SIGINT)
                try:
                    d.p.wait(timeout=40)
                except subprocess.TimeoutExpired:
                    pass
            part.note("daemon36.runs")
            part.note("daemon36.control-ops", counts["ops"])
            part.note("daemon36.control-stores", counts["stores"])
            part.note("daemon36.control-fetches", counts["fetches"])
            part.note("daemon36.peer-ops", peer_ops)
            part.note("daemon36.tick-seconds", seconds)
            if not alive:
                rcode = d.p.poll()
                key = runner.crash_signature([d.output()]) or ("signal:%d" % -rcode if rcode and rcode < 0 else "exit:%s" % rcode)
                part.violation("C36:daemon:tsan-build-died:" + key, {"daemon_output": d.output()[-800:]}, i)
            logs = sorted(glob.glob(os.path.join(rundir, "san.tsan.%s.*" % tag)))
            reports, families, descriptor = post_race.collect(logs, post_race.repo_roots())
            part.note("daemon36.tsan-reports", reports)
            part.note("daemon36.tsan-descriptor-lifecycle-reports-out-of-scope", descriptor)
            for key, blocks in sorted(families.items()):
                part.violation(key, {"reports": len(blocks), "where": "real eph serve", "first_report": blocks[0][:30000]}, i)
            part.sig(i, counts["ops"] > 0, peer_ops > 0, npeers)
            part.sample({"run": i, "peers": npeers, "seconds": seconds, "control_ops": counts["ops"], "peer_ops": peer_ops, "tsan_reports": reports})
        finally:
            for p in peers:
                if p.poll() is None:
                    p.kill()
            d.kill()
            shutil.rmtree(work, ignore_errors=True)
    return part.done()

#!/usr/bin/env python3
"""Regenerates /verif/MANIFEST.json from lib/props.py (the single source of truth)."""
import json
import os
import sys

HERE = os.path.dirname(os.path.abspath(__file__))
sys.path.insert(0, HERE)
import props  # noqa: E402

VERIF = os.path.dirname(HERE)
ALL = ["C%02d" % i for i in range(1, 40)]


def main():
    checks = []
    for pid in ALL:
        if pid not in props.PROPS:
            continue
        s = props.PROPS[pid]
        checks.append({
            "property_id": pid,
            "quick_cmd": "./check %s quick" % pid,
            "thorough_cmd": "./check %s thorough" % pid,
            "evidence_file": "/verif/evidence/%s.json" % pid,
            "replay_cmd_template": "./check %s --replay {path}" % pid,
            "engine": "runtime-monitor",
            "level_claimed": {"category": s["level"],
                              "text": s.get("text") or ("Held on the executions described in the evidence file: " + s["rule"]),
                              "design_ref": "DESIGN.md §3 " + pid},
            "level_note": "; ".join(s.get("assumptions", [])),
            "technique": s.get("technique", "runtime monitoring: sanitizer build + reference-model / differential oracle over generated executions"),
        })
    na = [{"property_id": pid, "reason": props.NOT_APPLICABLE.get(pid, "check not built yet in this tree (planned, see DESIGN.md)")}
          for pid in ALL if pid not in props.PROPS]
    m = {
        "version": 1,
        "setup_cmd": "./setup.sh",
        "hooks": {
            "guard": "EPHEMERALNET_VERIF",
            "enable": "harness builds pass -DEPHEMERALNET_VERIF=1 (harness/CMakeLists.txt); see DESIGN.md §2.3 for what is hooked",
            "baseline_off_cmd": "/verif/tools/run_baseline.sh",
            "source_commits": props.HOOK_COMMITS,
            "add_only": True,
        },
        "engines": [{"name": "runtime-monitor", "path": "/verif/check",
                     "serves_properties": [c["property_id"] for c in checks],
                     "kind_free_text": "sanitizer-instrumented harnesses over the real code with reference-model, differential and invariant monitors; event logs -> lib/runner.py"}],
        "checks": checks,
        "not_applicable": na,
        "notes": "All checks rebuild from /repo's working tree (incremental ninja under /verif/.build). VERIF_SEED selects the PRNG seed. Exit 2 = inconclusive.",
    }
    with open(os.path.join(VERIF, "MANIFEST.json"), "w") as f:
        json.dump(m, f, indent=1)
        f.write("\n")
    print("MANIFEST.json: %d checks, %d not_applicable" % (len(checks), len(na)))


if __name__ == "__main__":
    main()

#!/usr/bin/env python3
import os, sys
HERE = os.path.dirname(os.path.abspath(__file__))
sys.path.insert(0, HERE)
import runner, props
need = {}
for pid, s in props.PROPS.items():
    for part in s["parts"]:
        fl = part.get("flavour", "asan")
        need.setdefault(fl, set()).update(part.get("targets", [part["exe"]] if "exe" in part else []))
        for xfl, xt in part.get("also_build", {}).items():
            need.setdefault(xfl, set()).update(xt)
ok = True
for fl, t in need.items():
    b = runner.build(fl, sorted(t))
    print("setup: flavour", fl, "->", b, flush=True)
    ok = ok and b is not None
sys.exit(0 if ok else 1)

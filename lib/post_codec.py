"""Offline checkers over dumps written by h_codec: Python's json module is the independent JSON reference."""
import glob
import json
import os


def _dumps(info):
    return sorted(glob.glob(os.path.join(info["rundir"], "scratch.%s.*" % info["part"]["name"], "dump.jsonl")))


def _viol(res, info, key, case, detail):
    res.violations.append({"key": key, "detail": detail, "case": case, "seed": info["seed"], "part": info["part"]["name"],
                           "exe": info["part"]["exe"]})


def _pairs(x):
    return x


def post_c37(res, info):
    n = 0
    nconc = 0
    for path in _dumps(info):
        for raw in open(path):
            try:
                rec = json.loads(raw)
            except ValueError:
                continue
            if rec["kind"] == "log":
                n += 1
                line_b = bytes.fromhex(rec["line"])
                ev = bytes.fromhex(rec["event"]).decode("utf-8")
                fields = [(bytes.fromhex(k).decode("utf-8"), bytes.fromhex(v).decode("utf-8")) for k, v in rec["fields"]]
                try:
                    line = line_b.decode("utf-8")
                    obj = json.loads(line, object_pairs_hook=_pairs)
                except ValueError as e:
                    _viol(res, info, "C37:log:line-is-not-valid-json", rec["case"], {"error": str(e), "line_hex": rec["line"][:600]})
                    continue
                d = dict(obj)
                if not line.endswith("\n") or "\n" in line[:-1]:
                    _viol(res, info, "C37:log:not-exactly-one-line", rec["case"], {"line_hex": rec["line"][:600]})
                if d.get("event") != ev:
                    _viol(res, info, "C37:log:event-differs", rec["case"], {"want": ev, "got": d.get("event")})
                got_fields = [tuple(p) for p in d.get("fields", [])] if "fields" in d else []
                if got_fields != fields:
                    _viol(res, info, "C37:log:fields-differ", rec["case"], {"want": fields[:5], "got": got_fields[:5]})
            elif rec["kind"] == "log-concurrent":
                out = bytes.fromhex(rec["out"])
                want = sorted((bytes.fromhex(k).decode("utf-8"), bytes.fromhex(v).decode("utf-8")) for k, v in rec["expected"])
                got = []
                bad = False
                for ln in out.split(b"\n"):
                    if not ln:
                        continue
                    nconc += 1
                    try:
                        o = json.loads(ln.decode("utf-8"))
                        got.append((o["event"], o["fields"]["v"]))
                    except (ValueError, KeyError, TypeError) as e:
                        bad = True
                        _viol(res, info, "C37:log:concurrent-lines-interleaved", rec["case"], {"error": str(e), "line": ln[:300].decode("utf-8", "replace")})
                        break
                if not bad and sorted(got) != want:
                    _viol(res, info, "C37:log:concurrent-records-lost-or-changed", rec["case"], {"want": len(want), "got": len(got)})
    res.counters["log.lines-parsed-by-python-json"] = res.counters.get("log.lines-parsed-by-python-json", 0) + n
    res.counters["log.concurrent-lines-parsed"] = res.counters.get("log.concurrent-lines-parsed", 0) + nconc


def post_c38(res, info):
    n = 0
    for path in _dumps(info):
        for raw in open(path):
            try:
                rec = json.loads(raw)
            except ValueError:
                continue
            if rec.get("kind") != "meta":
                continue
            doc_b = bytes.fromhex(rec["doc"])
            try:
                doc = json.loads(doc_b.decode("utf-8"))
            except ValueError as e:
                _viol(res, info, "harness:C38:generator-produced-invalid-json", rec["case"], {"error": str(e), "doc": doc_b[:400].decode("utf-8", "replace")})
                continue
            n += 1
            if not rec["ok"]:
                continue  # already reported by the harness as valid-document-rejected
            got = rec["got"]

            def enc(s):
                return s.encode("utf-8", "surrogatepass").hex()

            for k in ("version", "tag", "commit", "channel", "generated_at"):
                if got.get(k) != enc(doc[k]):
                    _viol(res, info, "C38:meta:python-json-disagrees:" + k, rec["case"], {"want": enc(doc[k]), "got": got.get(k)})
            if isinstance(doc.get("notes_url"), str):
                if got.get("notes_url") != enc(doc["notes_url"]):
                    _viol(res, info, "C38:meta:python-json-disagrees:notes_url", rec["case"], {})
            elif "notes_url" in got:
                _viol(res, info, "C38:meta:python-json-disagrees:notes_url-present", rec["case"], {})
            dls = [(p, v) for p, v in doc["downloads"].items() if isinstance(v, dict)]
            if len(dls) != len(got["downloads"]):
                _viol(res, info, "C38:meta:python-json-disagrees:download-count", rec["case"], {})
                continue
            for (p, v), g in zip(dls, got["downloads"]):
                if g["platform"] != enc(p) or g["url"] != enc(v["url"]):
                    _viol(res, info, "C38:meta:python-json-disagrees:download-url-or-platform", rec["case"], {})
                for k in ("arch", "format"):
                    want = enc(v[k]) if isinstance(v.get(k), str) else ""
                    if g[k] != want:
                        _viol(res, info, "C38:meta:python-json-disagrees:" + k, rec["case"], {})
                want = enc(v["sha256"]) if isinstance(v.get("sha256"), str) else None
                if g.get("sha256") != want:
                    _viol(res, info, "C38:meta:python-json-disagrees:sha256", rec["case"], {})
    res.counters["meta.documents-cross-checked-with-python-json"] = res.counters.get("meta.documents-cross-checked-with-python-json", 0) + n

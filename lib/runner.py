#!/usr/bin/env python3
"""Shared runner for /verif checks: build, run harness workers, collect event
logs, route violations through known-findings, write evidence.

Exit codes: 0 held on what was observed; 1 violation (VIOLATION line printed);
2 inconclusive (harness/build failure, watchdog, too few events)."""
import fcntl
import hashlib
import json
import os
import re
import shutil
import signal
import struct
import subprocess
import sys
import time

VERIF = os.path.dirname(os.path.dirname(os.path.abspath(__file__)))
REPO = os.environ.get("VERIF_REPO", "/repo")
NCPU = os.cpu_count() or 4


def log(msg):
    print(msg, flush=True)


# --------------------------------------------------------------------------- build
def build_dir(flavour):
    suffix = ""
    if os.path.abspath(REPO) != "/repo":
        suffix = "-" + hashlib.sha1(os.path.abspath(REPO).encode()).hexdigest()[:10]
    base = os.environ.get("VERIF_BUILD_ROOT", os.path.join(VERIF, ".build"))
    return os.path.join(base, flavour + suffix)


def build(flavour, targets):
    """Incremental build of the given ninja targets from REPO's working tree."""
    bdir = build_dir(flavour)
    os.makedirs(bdir, exist_ok=True)
    lock = open(os.path.join(bdir, ".lock"), "w")
    fcntl.flock(lock, fcntl.LOCK_EX)
    try:
        env = dict(os.environ)
        if flavour == "fuzz":
            cxx = "clang++-14"
        else:
            cxx = "g++"
        if not os.path.exists(os.path.join(bdir, "build.ninja")):
            cmd = ["cmake", "-G", "Ninja", "-S", os.path.join(VERIF, "harness"), "-B", bdir,
                   "-DVERIF_REPO=" + os.path.abspath(REPO), "-DVERIF_FLAVOUR=" + flavour,
                   "-DCMAKE_CXX_COMPILER=" + cxx]
            if shutil.which("ccache"):
                cmd.append("-DCMAKE_CXX_COMPILER_LAUNCHER=ccache")
            r = subprocess.run(cmd, env=env, stdout=subprocess.PIPE, stderr=subprocess.STDOUT, text=True)
            if r.returncode != 0:
                log(r.stdout[-4000:])
                return None
        r = subprocess.run(["ninja", "-C", bdir, "-j", str(NCPU)] + list(targets),
                           stdout=subprocess.PIPE, stderr=subprocess.STDOUT, text=True)
        if r.returncode != 0:
            log(r.stdout[-6000:])
            return None
        return bdir
    finally:
        fcntl.flock(lock, fcntl.LOCK_UN)
        lock.close()


def exe_path(bdir, name):
    for cand in (os.path.join(bdir, name), os.path.join(bdir, "repo", name)):
        if os.path.exists(cand):
            return cand
    return os.path.join(bdir, name)


# --------------------------------------------------------------------------- known findings
def load_known():
    p = os.path.join(VERIF, "known_findings.json")
    if not os.path.exists(p):
        return []
    with open(p) as f:
        return json.load(f).get("findings", [])


def match_known(known, prop, key):
    import fnmatch
    for e in known:
        if e.get("status") != "open" or e.get("property") != prop:
            continue
        pat = e.get("key", "")
        if key == pat or fnmatch.fnmatchcase(key, pat):
            return e
    return None


# --------------------------------------------------------------------------- sanitizer / crash signatures
_frame_re = re.compile(r"#\d+ 0x[0-9a-f]+ in (.+?) (/[^\s:]+)(?::(\d+))?")


def _strip_fn(fn):
    fn = re.sub(r"\(.*$", "", fn)          # drop argument list
    fn = re.sub(r"<[^<>]*>", "", fn)       # drop simple template args
    return fn.strip()


def crash_signature(texts):
    """Derive a stable key from sanitizer logs / stderr of a dead worker."""
    blob = "\n".join(texts)
    repo_roots = (os.path.abspath(REPO) + "/src", os.path.abspath(REPO) + "/include", "/repo/src", "/repo/include")

    def first_repo_frame(section):
        for m in _frame_re.finditer(section):
            if m.group(2).startswith(repo_roots):
                return _strip_fn(m.group(1))
        return "?"

    m = re.search(r"ERROR: AddressSanitizer: ([\w-]+)", blob)
    if m:
        kind = m.group(1)
        if kind == "stack-overflow" or "stack-overflow" in blob[:m.end() + 200]:
            kind = "stack-overflow"
        return "asan:%s:%s" % (kind, first_repo_frame(blob[m.start():]))
    m = re.search(r"(/[^\s:]+):(\d+):\d+: runtime error: (.+)", blob)
    if m:
        what = m.group(3)
        what = re.sub(r"-?\d[\d.e+]*", "N", what)[:60]
        return "ubsan:%s:%s" % (os.path.basename(m.group(1)), what.strip())
    m = re.search(r"terminate called after throwing an instance of '([^']+)'", blob)
    if m:
        w = re.search(r"what\(\):\s*(.*)", blob)
        return "terminate:%s:%s" % (m.group(1), (w.group(1).strip()[:50] if w else ""))
    if "terminate called" in blob:
        return "terminate:unknown"
    m = re.search(r"ERROR: (\w+Sanitizer): ([\w-]+)", blob)
    if m:
        return "%s:%s:%s" % (m.group(1), m.group(2), first_repo_frame(blob[m.start():]))
    m = re.search(r"Assertion `(.+?)' failed", blob)
    if m:
        return "assert:" + m.group(1)[:60]
    return None


# --------------------------------------------------------------------------- running harness workers
class PartResult:
    def __init__(self):
        self.evaluations = 0
        self.nontrivial = 0
        self.sigs = set()
        self.counters = {}
        self.samples = []
        self.violations = []      # dicts: key, detail, case, seed, part, exe
        self.inconclusive = []    # strings
        self.wall = 0.0


def _read_log(path, res, part, seed, exe_name):
    if not os.path.exists(path):
        return False
    done = False
    with open(path, errors="replace") as f:
        for line in f:
            line = line.strip()
            if not line.startswith("{"):
                continue
            try:
                ev = json.loads(line)
            except ValueError:
                continue
            t = ev.get("t")
            if t == "sample":
                if len(res.samples) < 6:
                    res.samples.append(ev.get("data"))
            elif t == "violation":
                res.violations.append({"key": ev.get("key"), "detail": ev.get("detail"), "case": ev.get("case"),
                                       "seed": seed, "part": part, "exe": exe_name})
            elif t == "summary":
                done = True
                res.evaluations += ev.get("evaluations", 0)
                res.nontrivial += ev.get("nontrivial", 0)
                for k, v in ev.get("counters", {}).items():
                    if k.startswith("max:"):
                        res.counters[k] = max(res.counters.get(k, 0), v)
                    else:
                        res.counters[k] = res.counters.get(k, 0) + v
    sp = path + ".sigs"
    if os.path.exists(sp):
        data = open(sp, "rb").read()
        for i in range(0, len(data) - 7, 8):
            res.sigs.add(struct.unpack_from("<Q", data, i)[0])
    return done


def san_env(flavour, rundir, tag):
    env = dict(os.environ)
    logp = os.path.join(rundir, "san.%s" % tag)
    env["ASAN_OPTIONS"] = "abort_on_error=1:detect_leaks=0:handle_abort=0:allocator_may_return_null=1:log_path=%s:detect_stack_use_after_return=0" % logp
    env["UBSAN_OPTIONS"] = "print_stacktrace=1:halt_on_error=1:abort_on_error=1:log_path=%s" % logp
    env["TSAN_OPTIONS"] = "halt_on_error=0:exitcode=0:log_path=%s:second_deadlock_stack=1:history_size=5" % logp
    return env, logp


def run_harness_part(prop, part, exe, hprop, cases, seed, workers, rundir, flavour="asan",
                     thorough=False, params=None, timeout=900, only=None):
    """Run `cases` cases of harness property `hprop` across `workers` processes."""
    res = PartResult()
    t0 = time.time()
    exe_name = os.path.basename(exe)
    procs = []
    os.makedirs(rundir, exist_ok=True)

    def launch(w, start=0, attempt=0):
        tag = "%s.%d.%d" % (part, w, attempt)
        logp = os.path.join(rundir, "log.%s.jsonl" % tag)
        curp = os.path.join(rundir, "cur.%s" % tag)
        scratch = os.path.join(rundir, "scratch.%s" % tag)
        os.makedirs(scratch, exist_ok=True)
        env, sanp = san_env(flavour, rundir, tag)
        cmd = [exe, hprop, "--seed", str(seed), "--cases", str(cases), "--worker", str(w), "--workers", str(workers),
               "--log", logp, "--cur", curp, "--scratch", scratch, "--start", str(start)]
        if only is not None:
            cmd += ["--only", str(only)]
        if thorough:
            cmd.append("--thorough")
        for k, v in (params or {}).items():
            cmd += ["--param", "%s=%s" % (k, v)]
        errp = os.path.join(rundir, "stderr.%s" % tag)
        errf = open(errp, "w")
        p = subprocess.Popen(cmd, stdout=errf, stderr=errf, env=env, cwd=scratch, start_new_session=True)
        return {"p": p, "w": w, "tag": tag, "log": logp, "cur": curp, "san": sanp, "err": errp, "errf": errf,
                "attempt": attempt, "t0": time.time(), "timeouts": 0}

    nworkers = 1 if only is not None else workers
    for w in range(nworkers):
        procs.append(launch(w))

    pending = list(procs)
    while pending:
        time.sleep(0.05)
        for pr in list(pending):
            rc = pr["p"].poll()
            if rc is None:
                if time.time() - pr["t0"] > timeout:
                    try:
                        os.killpg(pr["p"].pid, signal.SIGKILL)
                    except OSError:
                        pass
                    pr["p"].wait()
                    rc = "timeout"
                else:
                    continue
            pending.remove(pr)
            pr["errf"].close()
            done = _read_log(pr["log"], res, part, seed, exe_name)
            if rc == "timeout":
                cur = _read_cur(pr["cur"])
                # A watchdog firing is inconclusive, unless it reproduces on the same case.
                if pr.get("retry_of_timeout_case") == cur and cur is not None:
                    res.violations.append({"key": "hang:%s" % hprop, "detail": {"case": cur, "timeout_s": timeout},
                                           "case": cur, "seed": seed, "part": part, "exe": exe_name})
                    if only is None and pr["attempt"] < 6:
                        n = launch(pr["w"], start=cur + 1, attempt=pr["attempt"] + 1)
                        procs.append(n); pending.append(n)
                elif only is None and pr["attempt"] < 6 and cur is not None:
                    n = launch(pr["w"], start=cur, attempt=pr["attempt"] + 1)
                    n["retry_of_timeout_case"] = cur
                    procs.append(n); pending.append(n)
                else:
                    res.inconclusive.append("watchdog timeout in %s worker %d" % (part, pr["w"]))
                continue
            if done and rc in (0, 1):
                continue
            # crashed: derive signature
            texts = []
            d = os.path.dirname(pr["san"])
            for fn in sorted(os.listdir(d)):
                if fn.startswith(os.path.basename(pr["san"]) + "."):
                    texts.append(open(os.path.join(d, fn), errors="replace").read())
            texts.append(open(pr["err"], errors="replace").read()[-20000:])
            key = crash_signature(texts)
            cur = _read_cur(pr["cur"])
            if key is None:
                if isinstance(rc, int) and rc < 0:
                    key = "signal:%d" % (-rc)
                else:
                    res.inconclusive.append("worker %s exited rc=%s without summary and without a crash signature" % (pr["tag"], rc))
                    continue
            res.violations.append({"key": key, "detail": {"crash": True, "rc": rc, "report": "\n".join(texts)[:6000]},
                                   "case": cur, "seed": seed, "part": part, "exe": exe_name})
            res.evaluations += 0
            if only is None and cur is not None and pr["attempt"] < 6:
                n = launch(pr["w"], start=cur + 1, attempt=pr["attempt"] + 1)
                procs.append(n); pending.append(n)
    res.wall = time.time() - t0
    return res


def _read_cur(path):
    try:
        m = re.search(r"case=(\d+)", open(path).read())
        return int(m.group(1)) if m else None
    except OSError:
        return None


# --------------------------------------------------------------------------- libFuzzer parts (thorough tier)
def run_fuzz_part(ctx):
    """Coverage-guided exploration of one fz_* target (clang libFuzzer + ASan + UBSan, oracle inside the target).
    part keys: fz (target), corpus (sub-directory written by `h_codec SEEDS`), runs (per job), jobs, max_len."""
    part = ctx["part"]
    res = PartResult()
    t0 = time.time()
    rundir = ctx["rundir"]
    exe = exe_path(ctx["bdirs"]["fuzz"], part["fz"])
    name = part["name"]
    first = ctx.get("replay_first")
    if first is not None:
        inp = os.path.join(rundir, "replay-input")
        with open(inp, "wb") as f:
            f.write(bytes.fromhex(first["detail"]["input_hex"]))
        env = dict(os.environ, ASAN_OPTIONS="detect_leaks=0:abort_on_error=1", UBSAN_OPTIONS="print_stacktrace=1")
        r = subprocess.run([exe, inp], env=env, stdout=subprocess.PIPE, stderr=subprocess.STDOUT, text=True, errors="replace")
        key = _fuzz_key(r.stdout)
        if r.returncode != 0 and key:
            res.violations.append({"key": key, "detail": {"input_hex": first["detail"]["input_hex"], "report": r.stdout[-3000:]},
                                   "case": None, "seed": first["seed"], "part": name, "exe": part["fz"]})
        return res
    # seed corpus from the generators of the ASan harness
    seeds_root = os.path.join(rundir, "fzseeds.%s" % name)
    os.makedirs(seeds_root, exist_ok=True)
    hc = exe_path(ctx["bdirs"]["asan"], "h_codec")
    r = subprocess.run([hc, "SEEDS", "--seed", str(ctx["seed"]), "--cases", "240", "--scratch", seeds_root,
                        "--log", os.path.join(rundir, "fzseeds.%s.log" % name)], stdout=subprocess.DEVNULL, stderr=subprocess.DEVNULL)
    seeds = os.path.join(seeds_root, part["corpus"])
    if r.returncode != 0 or not os.path.isdir(seeds) or not os.listdir(seeds):
        res.inconclusive.append("seed corpus for %s could not be generated" % part["fz"])
        return res
    jobs = part.get("jobs", 12)
    procs = []
    for j in range(jobs):
        corpus = os.path.join(rundir, "fzcorpus.%s.%d" % (name, j))
        os.makedirs(corpus, exist_ok=True)
        art = os.path.join(rundir, "fzart.%s.%d." % (name, j))
        errp = os.path.join(rundir, "fzerr.%s.%d" % (name, j))
        fseed = (int(ctx["seed"]) * 1000003 + j * 7919 + 1) & 0x7fffffff
        cmd = [exe, "-runs=%d" % part["runs"], "-seed=%d" % fseed, "-max_len=%d" % part.get("max_len", 1024),
               "-artifact_prefix=" + art, "-print_final_stats=1", "-use_value_profile=1", "-timeout=60", corpus, seeds]
        env = dict(os.environ, ASAN_OPTIONS="detect_leaks=0:abort_on_error=1:allocator_may_return_null=1", UBSAN_OPTIONS="print_stacktrace=1")
        errf = open(errp, "w")
        procs.append((subprocess.Popen(cmd, stdout=errf, stderr=errf, env=env, cwd=rundir, start_new_session=True), errp, errf, art, corpus, fseed))
    deadline = time.time() + part.get("timeout", 5400)
    for p, errp, errf, art, corpus, fseed in procs:
        try:
            p.wait(timeout=max(1, deadline - time.time()))
            rc = p.returncode
        except subprocess.TimeoutExpired:
            try:
                os.killpg(p.pid, signal.SIGKILL)
            except OSError:
                pass
            p.wait()
            rc = "timeout"
        errf.close()
        out = open(errp, errors="replace").read()
        m = re.search(r"stat::number_of_executed_units:\s*(\d+)", out)
        execs = int(m.group(1)) if m else 0
        if not m:
            mm = re.findall(r"^#(\d+)\s", out, re.M)
            execs = int(mm[-1]) if mm else 0
        res.evaluations += execs
        covs = re.findall(r"cov: (\d+) ft: (\d+)", out)
        if covs:
            res.counters["max:fuzz.%s.edges-covered" % part["fz"]] = max(res.counters.get("max:fuzz.%s.edges-covered" % part["fz"], 0), int(covs[-1][0]))
            res.counters["max:fuzz.%s.features" % part["fz"]] = max(res.counters.get("max:fuzz.%s.features" % part["fz"], 0), int(covs[-1][1]))
        res.counters["fuzz.%s.executions" % part["fz"]] = res.counters.get("fuzz.%s.executions" % part["fz"], 0) + execs
        for fn in os.listdir(corpus):
            res.sigs.add(int(hashlib.sha1(fn.encode()).hexdigest()[:15], 16))
        res.counters["fuzz.%s.corpus-inputs-kept" % part["fz"]] = res.counters.get("fuzz.%s.corpus-inputs-kept" % part["fz"], 0) + len(os.listdir(corpus))
        if rc == "timeout":
            res.inconclusive.append("fuzz job %s timed out (watchdog)" % part["fz"])
            continue
        if rc != 0:
            key = _fuzz_key(out)
            am = re.search(r"Test unit written to (\S+)", out)
            data = b""
            if am and os.path.exists(am.group(1)):
                data = open(am.group(1), "rb").read()
            if key is None:
                res.inconclusive.append("fuzz job %s exited rc=%s without a recognisable report" % (part["fz"], rc))
                continue
            res.violations.append({"key": key, "detail": {"input_hex": data.hex(), "report": out[-4000:], "libfuzzer_seed": fseed},
                                   "case": None, "seed": ctx["seed"], "part": name, "exe": part["fz"]})
    if len(res.samples) < 2:
        res.samples.append({"fuzz_target": part["fz"], "jobs": jobs, "runs_per_job": part["runs"], "executions": res.evaluations})
    res.wall = time.time() - t0
    return res


def _fuzz_key(out):
    m = re.search(r"HXVIOLATION key=(\S+)", out)
    if m:
        return m.group(1)
    k = crash_signature([out])
    if k:
        return k
    if "ERROR: libFuzzer: timeout" in out:
        return "hang:fuzz"
    if "ERROR: libFuzzer: out-of-memory" in out:
        return "oom:fuzz"
    if "ERROR: libFuzzer: deadly signal" in out:
        return "signal:fuzz"
    return None


# --------------------------------------------------------------------------- verdict + evidence
def finish(prop, tier, seed, level, rule, results, t0, assumptions, min_events=None, extra_cov=None,
           replay_info=None):
    """results: list of PartResult. Prints verdict lines, writes evidence, returns exit code."""
    known = load_known()
    evaluations = sum(r.evaluations for r in results)
    sigs = set()
    for r in results:
        sigs |= r.sigs
    counters = {}
    for r in results:
        for k, v in r.counters.items():
            if k.startswith("max:"):
                counters[k] = max(counters.get(k, 0), v)
            else:
                counters[k] = counters.get(k, 0) + v
    samples = []
    for r in results:
        samples += r.samples[:3]
    inconclusive = []
    for r in results:
        inconclusive += r.inconclusive

    # group violations by key
    bykey = {}
    for r in results:
        for v in r.violations:
            bykey.setdefault(v["key"], []).append(v)
    new_violations = []
    known_hits = []
    replay_dir = os.environ.get("VERIF_REPLAY_DIR", os.path.join(VERIF, "replays"))
    os.makedirs(replay_dir, exist_ok=True)
    for key, vs in sorted(bykey.items()):
        if key.startswith("harness:") or key.startswith("harness-"):
            # the harness could not set up or observe what it needed (environment): never a verdict on the code
            inconclusive.append("harness failure %s (%d time(s)): %s" % (key, len(vs), json.dumps(vs[0].get("detail"), default=str)[:300]))
            continue
        e = match_known(known, prop, key)
        if e is not None:
            known_hits.append((key, e, len(vs)))
            continue
        h = hashlib.sha1(key.encode()).hexdigest()[:10]
        rp = os.path.join(replay_dir, "%s-%s.json" % (prop, h))
        with open(rp, "w") as f:
            json.dump({"property": prop, "key": key, "count": len(vs), "first": vs[0], "tier": tier,
                       "replay": "./check %s --replay %s" % (prop, rp)}, f, indent=1, default=str)
        new_violations.append((key, rp, len(vs)))

    for key, e, n in known_hits:
        log("KNOWN-FINDING: property=%s %s [key=%s, seen %d time(s) in this run]" % (prop, e.get("what", ""), key, n))
    for key, rp, n in new_violations:
        log("VIOLATION property=%s replay=%s key=%s count=%d" % (prop, rp, key, n))

    if min_events:
        for k, need in min_events.items():
            have = counters.get(k, 0) if k != "evaluations" else evaluations
            if have < need:
                inconclusive.append("monitor observed %d < %d events of kind '%s'" % (have, need, k))
    if len(sigs) < 2 and not new_violations:
        inconclusive.append("fewer than 2 distinct non-trivial cases observed")

    cov = {"evaluations": int(evaluations), "distinct_nontrivial": int(len(sigs)), "rule": rule,
           "samples": samples if samples else [{"note": "no sample recorded"}],
           "observed": counters,
           "known_findings_seen": [k for k, _, _ in known_hits],
           "inconclusive_reasons": inconclusive}
    if extra_cov:
        cov.update(extra_cov)
    ev = {"property_id": prop, "tier": tier, "seed": int(seed), "level": level, "coverage": cov,
          "assumptions": assumptions, "wall_s": round(time.time() - t0, 2), "violations": len(new_violations)}
    evidence_dir = os.environ.get("VERIF_EVIDENCE_DIR", os.path.join(VERIF, "evidence"))
    os.makedirs(evidence_dir, exist_ok=True)
    with open(os.path.join(evidence_dir, "%s.json" % prop), "w") as f:
        json.dump(ev, f, indent=1, default=str)
        f.write("\n")

    log("%s %s: evaluations=%d distinct_nontrivial=%d violations(new)=%d known=%d wall=%.1fs" %
        (prop, tier, evaluations, len(sigs), len(new_violations), len(known_hits), time.time() - t0))
    for k in sorted(counters):
        log("  observed %-44s %d" % (k, counters[k]))
    if new_violations:
        return 1
    if inconclusive:
        for s in inconclusive:
            log("INCONCLUSIVE property=%s %s" % (prop, s))
        return 2
    return 0

"""Parses ThreadSanitizer reports written by h_race (log_path) into violation keys.

Signature = owner-object family when one of the known unlocked objects is involved, otherwise the unordered
pair of the first class-qualified repository frame on each side (line numbers stripped)."""
import glob
import os
import re

_frame = re.compile(r"#\d+ (.+?) (/[^\s:]+)(?::(\d+))?(?::\d+)? \(")


def _strip(fn):
    fn = re.sub(r"\(.*$", "", fn)
    fn = re.sub(r"<[^<>]*>", "", fn)
    fn = fn.replace("ephemeralnet::", "")
    return fn.strip()


def _first_repo_frame(section, roots):
    for m in _frame.finditer(section):
        path = m.group(2)
        if path.startswith(roots) and "::" in m.group(1):
            return _strip(m.group(1)), os.path.basename(path)
    return None, None


def classify(block, roots):
    # split into the two access stacks
    parts = re.split(r"\n\s*Previous (?:atomic )?(?:read|write) of size", block, maxsplit=1)
    if len(parts) < 2:
        parts = re.split(r"\n\s*Previous ", block, maxsplit=1)
    a = parts[0]
    b = parts[1] if len(parts) > 1 else ""
    # cut b at the next section header
    b = re.split(r"\n\s*(?:Location is|Thread T\d+ .*created|Mutex M\d+)", b, maxsplit=1)[0]
    fa, _ = _first_repo_frame(a, roots)
    fb, _ = _first_repo_frame(b, roots)
    fns = sorted(x for x in (fa, fb) if x)
    text = a + b
    # descriptor life-cycle (declared out of scope of "shared node state" in DESIGN.md)
    if re.search(r"\bclose\b|\bshutdown\b", text) and re.search(r"\brecv\b|\bsend\b|\baccept\b|\bclose\b", text) and ("race on fd" in text or "file descriptor" in block):
        return "descriptor", "descriptor-lifecycle"
    joined = " ".join(fns)
    # an object destroyed at teardown vs. a detached (finished, never joined) session thread: thread life-cycle
    if "~" in joined or re.search(r"#\d+ [^\n]*::~\w+\(\)", a):
        return "descriptor", "lifecycle:destructor-vs-detached-thread"
    if "close_session_socket" in joined or "close_socket" in joined:
        return "descriptor", "descriptor-lifecycle:Session::socket"
    # listen-socket handles being reset by stop() while the accept loop reads them
    if len(fns) == 2 and all(re.search(r"(ControlServer::Impl|SessionManager)::(stop|accept_loop|start)$", f) for f in fns):
        return "descriptor", "descriptor-lifecycle:listen-socket"
    if "network::KeyManager::" in joined:
        return "state", "race:KeyManager::contexts_"
    hs = ("Node::perform_handshake", "Node::last_handshake_success")
    if fns and all(any(f.startswith(h) for h in hs) for f in fns):
        return "state", "race:Node::handshake_state_"
    sk = ("network::SessionManager::receive_loop", "network::SessionManager::register_peer_key", "network::SessionManager::send")
    if len(fns) == 2 and all(any(f.startswith(h) for h in sk) for f in fns):
        return "state", "race:Session::key"
    if not fns:
        return "other", "race:unattributed"
    return "state", "race:" + "|".join(fns)


def collect(paths, roots):
    """-> (number of reports, {signature: [blocks]}, number of descriptor/life-cycle reports)"""
    reports = 0
    families = {}
    descriptor = 0
    for path in paths:
        text = open(path, errors="replace").read()
        for block in re.split(r"={18}\n", text):
            if "WARNING: ThreadSanitizer: data race" not in block:
                if "WARNING: ThreadSanitizer:" in block:
                    kind = re.search(r"WARNING: ThreadSanitizer: ([^\n(]+)", block).group(1).strip()
                    reports += 1
                    # object life-time at teardown (a Node destroyed while a detached reader thread still runs its
                    # last handler) is thread/descriptor life-cycle, not a steady-state access to shared node state
                    if kind == "heap-use-after-free" and re.search(r"Node::~Node|c36_case|~LiveNode", block):
                        descriptor += 1
                        continue
                    families.setdefault("tsan:" + kind.replace(" ", "-"), []).append(block)
                continue
            reports += 1
            cls, key = classify(block, roots)
            if cls == "descriptor":
                descriptor += 1
                continue
            families.setdefault(key, []).append(block)
    return reports, families, descriptor


def repo_roots():
    r = os.path.abspath(os.environ.get("VERIF_REPO", "/repo"))
    return (r + "/src", r + "/include", "/repo/src", "/repo/include")


def post_c36(res, info):
    reports, families, descriptor = collect(sorted(glob.glob(os.path.join(info["rundir"], "san.%s.*" % info["part"]["name"]))), repo_roots())
    for key, blocks in sorted(families.items()):
        res.violations.append({"key": key, "detail": {"reports": len(blocks), "first_report": blocks[0][:30000]}, "case": None,
                               "seed": info["seed"], "part": info["part"]["name"], "exe": info["part"]["exe"]})
    res.counters["tsan.reports"] = res.counters.get("tsan.reports", 0) + reports
    res.counters["tsan.distinct-signatures-in-scope"] = len(families)
    res.counters["tsan.descriptor-lifecycle-reports-out-of-scope"] = res.counters.get("tsan.descriptor-lifecycle-reports-out-of-scope", 0) + descriptor

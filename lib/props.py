"""Per-property check specifications (parts, bounds, evidence wording)."""

A_SAN = "ASan+UBSan (g++ -fsanitize=address,undefined -fno-sanitize-recover=all) observe only executed paths"
A_VCLK = "std::chrono clocks are interposed by the harness (virtual time); code reading time another way is not covered"
A_OSSL = "OpenSSL libcrypto is the trusted reference for SHA-256/HMAC/ChaCha20"

PROPS = {}


def P(pid, level, rule, parts, assumptions, min_events=None):
    PROPS[pid] = dict(level=level, rule=rule, parts=parts, assumptions=assumptions, min_events=min_events or {})


def H(name, exe, quick, thorough, **kw):
    d = dict(name=name, exe=exe, quick=quick, thorough=thorough)
    d.update(kw)
    return d


P("C08", "exploration",
  "case = one message (length swept 0..300 then boundary-biased up to 1 MiB) x split patterns x one HMAC key (0..200 bytes) x tag mutations, "
  "each compared with OpenSSL; distinct = (length class, key-length class, length)",
  [H("main", "h_crypto", 3000, 400000)], [A_SAN, A_OSSL],
  {"sha256.oneshot": 300, "hmac.verify": 1000})

P("C09", "exploration",
  "case = (key, nonce, counter incl. 2^32-1 / wrap, length incl. 0 and multiples of 64) compared with an RFC 8439 pseudocode reference, "
  "OpenSSL EVP_chacha20 when the counter does not wrap, RFC vectors, involution, CryptoManager counter derivation; distinct = (length class, wraps, counter, length)",
  [H("main", "h_crypto", 6000, 1500000)], [A_SAN, A_OSSL, "counter wrap is compared against the harness's own RFC-pseudocode block function (pinned to OpenSSL and the RFC vectors on non-wrapping inputs)"],
  {"chacha.apply": 1000, "chacha.counter-wrap-cases": 50, "chacha.rfc-vectors": 2})

P("C10", "exploration",
  "case 0 = exhaustive GF(256) field check (all 65536 pairs vs bitwise carry-less reference); case 1 = uniformity of share values; "
  "then (t,n): all 1<=t<=n<=12, boundary pairs up to n=255, random pairs; per case threshold subsets (all when <=500), supersets, too-few, duplicate-index and index-0 sets; distinct = (t,n)",
  [H("main", "h_crypto", 400, 40000, timeout_q=900)], [A_SAN, "split with n >= 200 runs in a forked child with a 6 s watchdog (a hang is a violation)"],
  {"field.exhaustive-pairs": 65536, "split.n255": 2, "combine.duplicate-index-sets": 100})

P("C12", "exploration",
  "case = two real Nodes with random identity seeds / peer ids / PoW difficulty 0..8 performing a mutual handshake, plus 64 scalar pairs "
  "(boundary 2,3,p-3,p-2) for DH agreement, modexp vs a 128-bit reference, validate_public on boundary values; distinct = (seedA, seedB, difficulty)",
  [H("main", "h_crypto", 600, 60000)], [A_SAN],
  {"node.handshake-pairs": 100, "dh.scalar-pairs": 1000})

P("C13", "exploration",
  "case = one signed message (6 types x versions 1..4 x key lengths) with every single-bit flip (small messages), every truncation, extensions, "
  "16-byte block swaps, other keys, and bodies mutated then re-signed by the reference; oracle = OpenSSL HMAC + plain decode; distinct = (type, version, length, key length)",
  [H("main", "h_crypto", 240, 24000)], [A_SAN, A_OSSL],
  {"signed.buffers-checked": 20000, "signed.accepted": 100, "signed.rejected": 10000})

NOT_APPLICABLE = {}
HOOK_COMMITS = []

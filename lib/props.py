"""Per-property check specifications (parts, bounds, evidence wording)."""

A_SAN = "ASan+UBSan (g++ -fsanitize=address,undefined -fno-sanitize-recover=all) observe only executed paths"
A_VCLK = "std::chrono clocks are interposed by the harness (virtual time); code reading time another way is not covered"
A_OSSL = "OpenSSL libcrypto is the trusted reference for SHA-256/HMAC/ChaCha20"

PROPS = {}


def P(pid, level, rule, parts, assumptions, min_events=None):
    PROPS[pid] = dict(level=level, rule=rule, parts=parts, assumptions=assumptions, min_events=min_events or {})


def H(name, exe, quick, thorough, **kw):
    d = dict(name=name, exe=exe, quick=quick, thorough=thorough)
    d.update(kw)
    return d


import runner as _runner  # noqa: E402

A_FUZZ = ("thorough tier adds coverage-guided exploration (clang-14 libFuzzer + ASan + UBSan) of the decoder translation units compiled from the "
          "working tree; the oracle lives in the fuzz target; executions, covered edges and kept corpus inputs are reported")


def FZ(name, target, corpus, runs, max_len=1024, jobs=12):
    return dict(name=name, py=_runner.run_fuzz_part, flavour="fuzz", targets=[target], also_build={"asan": ["h_codec"]},
                fz=target, corpus=corpus, runs=runs, max_len=max_len, jobs=jobs, tiers=("thorough",))


P("C08", "exploration",
  "case = one message (length swept 0..300 then boundary-biased up to 1 MiB) x split patterns x one HMAC key (0..200 bytes) x tag mutations, "
  "each compared with OpenSSL; distinct = (length class, key-length class, length)",
  [H("main", "h_crypto", 3000, 400000)], [A_SAN, A_OSSL],
  {"sha256.oneshot": 300, "hmac.verify": 1000})

P("C09", "exploration",
  "case = (key, nonce, counter incl. 2^32-1 / wrap, length incl. 0 and multiples of 64) compared with an RFC 8439 pseudocode reference, "
  "OpenSSL EVP_chacha20 when the counter does not wrap, RFC vectors, involution, CryptoManager counter derivation; distinct = (length class, wraps, counter, length)",
  [H("main", "h_crypto", 6000, 1500000)], [A_SAN, A_OSSL, "counter wrap is compared against the harness's own RFC-pseudocode block function (pinned to OpenSSL and the RFC vectors on non-wrapping inputs)"],
  {"chacha.apply": 1000, "chacha.counter-wrap-cases": 50, "chacha.rfc-vectors": 2})

P("C10", "exploration",
  "case 0 = exhaustive GF(256) field check (all 65536 pairs vs bitwise carry-less reference); case 1 = uniformity of share values; "
  "then (t,n): all 1<=t<=n<=12, boundary pairs up to n=255, random pairs; per case threshold subsets (all when <=500), supersets, too-few, duplicate-index and index-0 sets; distinct = (t,n)",
  [H("main", "h_crypto", 400, 40000, timeout_q=900)], [A_SAN, "split with n >= 200 runs in a forked child; eight CPU seconds consumed without a result is a hang (violation), two minutes of wall time without that is a harness failure"],
  {"field.exhaustive-pairs": 65536, "split.n255": 2, "combine.duplicate-index-sets": 100})

P("C12", "exploration",
  "case = two real Nodes with random identity seeds / peer ids / PoW difficulty 0..8 performing a mutual handshake (in half of the cases a second one later, after each side rotated its session key 0..3 times), plus 64 scalar pairs "
  "(boundary 2,3,p-3,p-2) for DH agreement, modexp vs a 128-bit reference, validate_public on boundary values; distinct = (seedA, seedB, difficulty)",
  [H("main", "h_crypto", 600, 60000)], [A_SAN],
  {"node.handshake-pairs": 100, "dh.scalar-pairs": 1000, "node.re-handshakes-after-rotation": 50})

P("C13", "exploration",
  "case = one signed message (6 types x versions 1..4 x key lengths) with every single-bit flip (small messages), every truncation, extensions, "
  "16-byte block swaps, other keys, and bodies mutated then re-signed by the reference; oracle = OpenSSL HMAC + plain decode; distinct = (type, version, length, key length)",
  [H("main", "h_crypto", 240, 24000), FZ("fuzz", "fz_message", "msg", 400000)], [A_SAN, A_OSSL, A_FUZZ],
  {"signed.buffers-checked": 20000, "signed.accepted": 100, "signed.rejected": 10000})

import post_codec  # noqa: E402

P("C15", "exploration",
  "case = one message: type = case%6, version = (case/6)%256 (all 256 versions per type), boundary-biased fields; oracle decode(encode(m)) == m with version clamped to 1..4 "
  "and the announce nonce carried from version 3; distinct = (type, version, size class)",
  [H("main", "h_codec", 6 * 256 * 4, 6 * 256 * 400)], [A_SAN],
  {"codec.roundtrips": 6000, "codec.announce-v3plus": 500})

P("C16", "exploration",
  "case = batch of hostile inputs derived from a valid encoding (length fields set to 0/len+-k/2^31/2^32-1, every truncation, header mutations, trailing bytes, random bytes) "
  "in exact-size heap buffers; oracle: no exception, no sanitizer report, re-encoding of anything accepted is a prefix of the input (boolean bytes by truthiness), "
  "decode_signed with a reference MAC agrees with decode; distinct = (type, mode, length)",
  [H("main", "h_codec", 4000, 600000), FZ("fuzz", "fz_message", "msg", 1000000)], [A_SAN, A_OSSL, A_FUZZ],
  {"decode.inputs": 50000, "decode.accepted": 1000})

P("C17", "exploration",
  "case = one manifest with list sizes 0/1/254/255/256/257/300 and string lengths 0/1/254/255/256, 65534/65535/65536+ in one chosen dimension, any expiry in the time_point range; "
  "independent predicate representable(m) decides: round trip equal up to whole-second expiry / empty scheme -> transport, or encode must throw; distinct = (dimension, representable, sizes)",
  [H("main", "h_codec", 4000, 400000), FZ("fuzz", "fz_manifest", "man", 400000, max_len=2048)], [A_SAN, A_FUZZ],
  {"manifest.representable": 1500, "manifest.unrepresentable": 300, "manifest.roundtrips": 1500})

P("C18", "exploration",
  "case = batch of URIs derived from a valid manifest: expiry field set to u64 boundaries (0, 2^31, 2^33, INT64_MAX/1e9 +-1, 2^63-1, 2^63, 2^64-1, ...), every truncation, corrupted base64, "
  "mutated fields/counts, random strings; oracle: returns or throws std::invalid_argument, nothing else, no UBSan/ASan report; distinct = (mode, size, case%64)",
  [H("main", "h_codec", 3000, 500000), FZ("fuzz", "fz_manifest", "man", 1000000, max_len=2048)], [A_SAN, A_FUZZ, "UBSan decides the undefined-behaviour part (signed overflow in time conversions)"],
  {"manifest.decode-inputs": 30000, "manifest.expiry-boundary-inputs": 3000})

P("C33", "exploration",
  "case = one datagram (exact-size heap copy): canonical Binding Success responses with unknown attributes around one (XOR-)MAPPED-ADDRESS (IPv4/IPv6), wrong type / transaction id, "
  "attribute overrunning the declared message length but not the datagram, lying attribute lengths, misalignment, truncations, mutations, random bytes <= 512; "
  "oracle = strict RFC 5389 reference walk (soundness) + canonical responses must be reported exactly; distinct = (mode, family, xor, reported, size)",
  [H("main", "h_codec", 60000, 6000000), FZ("fuzz", "fz_stun", "stun", 1500000, max_len=524)], [A_SAN, A_FUZZ],
  {"stun.datagrams": 50000, "stun.address-reported": 10000, "stun.canonical": 10000})

P("C37", "exploration",
  "case = one log() call with event/field names/values drawn from all UTF-8 planes, every C0 control, DEL, quotes, backslashes, trailing backslash, U+2028/9, 0..50 fields, duplicate names; "
  "every 50th case = 8 threads x 40 records concurrently; oracle = exactly one line + Python json.loads decodes event and ordered field pairs to the logged strings; distinct = (event, fields, line hash)",
  [H("main", "h_codec", 20000, 400000, post=post_codec.post_c37)], [A_SAN, "Python's json module is the trusted JSON reference"],
  {"log.records": 15000, "log.lines-parsed-by-python-json": 15000, "log.concurrent-lines-parsed": 10000})

P("C38", "exploration",
  "case = generated update-metadata document (random escaping of every code point incl. surrogate pairs, whitespace, extra nested values) checked against the strings it was built from and against Python json; "
  "plus truncation at every byte, tiny prefixes, nesting depth up to 2e5 (quick) / 1e6 (thorough), random and mutated bytes in exact-size heap buffers; distinct = document hash / (mode, size)",
  [H("main", "h_codec", 6000, 600000, post=post_codec.post_c38)], [A_SAN, "Python's json module is the trusted JSON reference; duplicate keys and lone surrogates are excluded (reference semantics differ)"],
  {"meta.valid-documents": 2000, "meta.fields-compared": 20000, "meta.deep-nesting-inputs": 100, "meta.documents-cross-checked-with-python-json": 500})

P("C04", "fault_enumeration",
  "part hist: random histories of put/overwrite/lookup/sweep/restart/clock-advance on a persistent ChunkStore (wipe passes 0..3, sizes 0..20000) with a directory listing after every step and "
  "hard links taken before every wipe so the overwritten blocks stay observable; part crash: for each scenario (store; overwrite; sweep; lookup-then-sweep; random) the child is SIGKILLed by a ptrace "
  "supervisor at EVERY filesystem syscall entry (openat/write/writev/close/unlink/...), then a fresh ChunkStore on the same directory runs one cleanup far past every deadline; distinct = op-sequence hash / (scenario, size, crash point)",
  [H("hist", "h_store", 600, 60000, hprop="C04"), H("crash", "h_store", 18, 216, hprop="C04crash", qworkers=9, timeout_q=900)],
  [A_SAN, A_VCLK, "a crash is a process kill at system-call granularity; power loss / page-cache loss is out of reach", "wipe observation assumes the filesystem keeps a hard-linked inode's blocks in place on overwrite"],
  {"files.cleanups": 500, "files.restarts": 200, "files.removals-observed-via-hardlink": 300, "files.expiry-first-noticed-by-lookup": 50, "crash.points-exercised": 300})

P("C06", "exploration",
  "case = history of 10..80 add/withdraw/find/sweep/clock operations over 2..4 chunks and 2..25 peers (crossing the cap of 20) with mixed long/short TTLs, checked against a reference map "
  "chunk -> peer -> latest deadline (cap keeps the latest-expiring); lookups compared as sets of (peer, address, deadline); distinct = operation-sequence hash",
  [H("main", "h_store", 3000, 400000)], [A_SAN, A_VCLK],
  {"providers.lookups-nonempty": 2000, "providers.sweeps": 1000, "providers.cap-evictions": 50})

P("C07", "exploration",
  "case = history of register_peer/add_contact/sweep/clock/query over ids sharing 0..255 prefix bits with the local id (one bucket deliberately overflowed); after every operation the held set is read from the "
  "buckets and checked (no self, <= 16 per bucket, bucket = highest differing bit by independent 256-bit arithmetic, unique ids, refreshed contact single+fresh); queries compared with an independent XOR sort; distinct = operation-sequence hash",
  [H("main", "h_store", 2000, 300000)], [A_SAN, A_VCLK, "the eviction policy is not modelled (the statement does not fix one); the held set is read from private state"],
  {"routing.queries-nonempty": 1000, "routing.refresh-checks": 5000})

P("C01", "exploration",
  "part node: real Node with a socketpair peer session under the frozen clock; history of 10..60 store/overwrite/fetch/export/peer REQUEST/listing/tick/store-get/clock operations over 1..4 ids, "
  "clock advanced to deadline-1ns / exactly the deadline / +1ns; oracle = reference map id -> (payload, ciphertext, deadline = store time + clamp(ttl)); part store: the same on a bare ChunkStore; distinct = operation-sequence hash",
  [H("node", "h_node", 1500, 200000, hprop="C01"), H("store", "h_store", 2000, 300000, hprop="C01s")], [A_SAN, A_VCLK],
  {"reads.fetch.live": 500, "reads.fetch.dead": 300, "reads.peer-request.served": 200, "reads.listings": 300, "store.reads-live": 1000, "clock.advance-exactly-to-deadline": 300})

P("C02", "exploration",
  "case = random Config (zero / negative / inverted / huge values incl. INT64_MIN/MAX in every TTL, rotation, announce and PoW field) -> effective limits checked, then 4 (quick) / 8 (thorough) stores with requested TTLs from the same set, one in three of them repeating an id stored earlier in the case after 0..5 s; "
  "the four recorded lifetimes (chunk record, manifest expiry, shard record, self announcement) are read from node state under the frozen clock and must equal clamp(request or default, min, max) exactly; distinct = effective (min, max, default, rotation)",
  [H("node", "h_node", 3000, 200000, hprop="C02"), H("control", "h_control", 300, 30000, hprop="C02c")],
  [A_SAN, A_VCLK, "second part: the control-plane clause (STORE TTL header refused outside the window, incl. values that are an in-window TTL modulo 2^16 / 2^31 / 2^32 / 2^63) against the in-process ControlServer, the same scenario the C28 check runs"],
  {"config.sanitised": 3000, "lifetimes.checked": 20000, "lifetimes.repeated-stores": 500, "ttl.out-of-window-requests": 500, "ttl.in-window-requests": 300})

P("C03", "exploration",
  "case = 4..15 manifest arrivals (ingest, ANNOUNCE over a socketpair session with announced TTLs 0..2^32-1, replica receipt with genuine ciphertext, fetch request) with expiry at now-1e5s .. now+min-1/min/min+1 .. max+-1 .. 10 years .. the largest encodable second; "
  "oracle: a manifest with remaining < min TTL or expired leaves the derived-state snapshot identical; every derived deadline (key shares, replica, provider contact, locator, pending fetch) <= manifest expiry and <= arrival + max TTL; distinct = arrival-sequence hash",
  [H("node", "h_node", 2500, 300000, hprop="C03")], [A_SAN, A_VCLK],
  {"arrivals.must-reject": 3000, "arrivals.accepted": 3000, "arrivals.accepted-far-future": 300, "derived.deadlines-checked": 10000})

P("C05", "exploration",
  "case = history of stores (unique ids), ingests, announces, lookups between deadline and tick, ticks and clock advances on a Node with a 1 s cleanup interval; after every tick that cleaned up, private state is scanned for anything with deadline <= T "
  "(chunks, locators, holders, key shares, routing contacts, cached manifests, swarm plans), audit_ttl() lists must be empty, notifications are matched exactly-once against the set of expired local chunks; distinct = operation-sequence hash",
  [H("node", "h_node", 1500, 150000, hprop="C05")], [A_SAN, A_VCLK],
  {"cleanup.ticks-scanned": 2000, "cleanup.notifications": 1000, "ops.lookup-between-deadline-and-tick": 100})

P("C11", "exploration",
  "case = store on node A (payload sizes 0,1,63,64,65,4 KiB,70000 / 1 MiB thorough; (t,n) incl. (1,1),(255,255); chunk ids whose ChaCha counter wraps) then local fetch, held bytes vs reference ChaCha20 under the key reconstructed by an independent GF(256) Lagrange, "
  "replica import + fetch on node B, the CLI's decrypt_chunk_with_manifest; in half of the cases the same chunk id is then stored again (same payload 2/3, other payload 1/3) and local fetch, held bytes, replica import and fetch on B (which knows the first replica) are checked against the second manifest; then 8-12 corruptions (ciphertext bit flips/truncation/extension, manifest hash/nonce/share byte/share index/threshold/id) on fresh nodes: must return nullopt and leave state unchanged unless the mutated pair is still consistent; distinct = (size, t, n, id byte)",
  [H("node", "h_node", 600, 25000, hprop="C11")], [A_SAN, A_OSSL, A_VCLK],
  {"roundtrip.stores": 500, "roundtrip.replica-imports": 400, "tamper.attempts": 2000, "roundtrip.repeated-stores": 150})

P("C19", "exploration",
  "case 0 = the four leading-zero counters (Node.cpp, StoreProof.cpp, main.cpp via TU inclusion, digest_meets_difficulty) against a bit-by-bit reference on digests with exactly k leading zero bits for ALL k=0..256 and all difficulties 0..255; "
  "other cases = one surface (handshake / announce / store / bootstrap token) at difficulty 0..8: 512 consecutive nonces through the real validator vs lz_ref(repository digest) >= d, CLI and node agree on the handshake surface (in half of the cases the node runs with the default 5 s handshake cool-down and every offer is presented twice in a row: the repeat must get the same verdict), "
  "single-field changes must change the acceptance vector, acceptance rate 2^-d within 6 sigma, cap of 24, every solver's nonce accepted by the matching validator; distinct = (surface, difficulty, case%256)",
  [H("main", "h_node2", 400, 40000, hprop="C19")], [A_SAN, A_OSSL, "the digest of each surface is the repository's own digest function (reached by TU inclusion): the oracle is independent of the field encoding, SHA-256 itself is C08's subject"],
  {"counters.exhaustive-prefix-classes": 257, "validators.handshake-samples": 20000, "validators.announce-samples": 20000, "validators.store-samples": 20000, "binding.field-variations": 300, "solvers.token": 50, "validators.handshake-repeats-inside-cooldown": 5000})

P("C20", "exploration",
  "part logic: sequences of 3..12 inbound handshakes on one node (valid; invalid key 0/1/p/p+1/2^32-1; any key outside (1,p) - also key+p aliases of valid keys - with a PoW genuinely solved for it; other nonce; different key for the same claimed peer with and without its own valid PoW) at spacings 0 / 1ns / cooldown-1ns / cooldown / beyond, "
  "cooldown 0/1/5/60 s, difficulty 0 or 2..8, through Node::handle_transport_handshake; oracle: accepted iff key in (1,p) and lz_ref(handshake digest) >= d; on rejection key unchanged and reputation lowered; on acceptance the session key equals HMAC(DH secret, sorted publics) by the reference; "
  "part socket (h_transport): the same over real TCP with ACK/EOF observation; distinct = (difficulty, cooldown, outcome sequence)",
  [H("logic", "h_node2", 5000, 500000, hprop="C20"), H("socket", "h_transport", 60, 3000, hprop="C20s", qworkers=8)], [A_SAN, A_VCLK, A_OSSL],
  {"handshakes.admissible": 5000, "handshakes.inadmissible": 5000, "handshakes.key-derivation-checked": 3000, "socket-handshakes.admissible": 50, "socket-handshakes.inadmissible": 50, "socket-handshakes.rejections-with-a-live-session": 10})

P("C21", "exploration",
  "case = timed sequence of 6..35 ANNOUNCEs from 1..3 peers over socketpair sessions (unique chunk per announce so acceptance is visible) with one flaw drawn from {none, names another announcer, expired, remaining < min TTL, other chunk id, threshold unmet, assigned shard missing, undecodable/empty manifest, version < 3 with PoW, spoiled nonce}; "
  "throttle configs incl. zero/negative (sanitised); gaps at interval/window/lock-out edges; oracle on the OBSERVED state-changing set: changed => admissible, per-peer spacing >= min interval, <= burst per window, no change while certainly locked (3 rejections in 120 s), admissible+spaced+unlocked must change state; distinct = sequence hash",
  [H("main", "h_node2", 1500, 200000, hprop="C21")], [A_SAN, A_VCLK],
  {"announces.delivered": 20000, "announces.state-changing": 3000, "announces.while-certainly-locked": 100})

P("C22", "exploration",
  "case = one SwarmCoordinator::compute_plan on a real KademliaTable with 0..40 candidates (expiries around now, random loads/reputations/choking), shard counts 0..255 (labels may repeat), thresholds 0..255, config values 0..65535; "
  "oracle: provider count = min(c, s, max(target, min(max(minprov, t), c, s))) with c recomputed independently, providers distinct/live/not self/among the XOR-closest sample, each >= 1 shard, counts differ <= 1, multiset of labels assigned exactly once; distinct = (s, t, c, target, min)",
  [H("main", "h_node2", 5000, 500000, hprop="C22")], [A_SAN, A_VCLK],
  {"plans.computed": 5000, "plans.nonempty": 1500})

P("C23", "exploration",
  "case = history of 8..57 REQUEST (incl. repeats of an in-flight (peer,chunk) and unknown chunks) / ACK / tick / clock (timeout-1, timeout, timeout+1) steps from 1..4 socketpair peers with limits {0..3} x {0..3}; "
  "uploads are tracked from CHUNK frames actually sent until the peer's ACK or the timeout; oracle: in-flight <= limits at every step, exactly one negative ACK for an unservable request, a peer with no in-flight upload holds no slot after the scheduler ran; distinct = sequence hash",
  [H("main", "h_node2", 2000, 200000, hprop="C23")], [A_SAN, A_VCLK],
  {"uploads.chunk-frames": 5000, "uploads.repeated-request-while-in-flight": 300, "uploads.timeouts": 200, "uploads.unservable-requests": 500, "uploads.slot-release-checks": 10000})

P("C24", "exploration",
  "case = history of 8..67 assigned-fetch ANNOUNCEs (incl. re-announces of an in-flight fetch from the same or another peer), chunk arrivals, ticks and clock steps (next_attempt-1ns / exact / +1ns) with peers that do / do not have a session (send succeeds / fails) and providers whose session goes away in the middle of the history (sends that succeeded start to fail); limits 0..3, back-off 1..5 s doubling to <= 125 s, attempt limit 0..12; one case in eight follows one fetch over 40..110 consecutive failed attempts (attempt limit 0 or 33..255, clock stepped from retry time to retry time); "
  "oracle after every step: per-peer in-flight <= limit and equal to the node's counter (absent when zero), failed-attempt delays = initial*2^(k-1) capped at max (plateau after 8 doublings accepted), a send that fails with the attempt limit already used up is never scheduled again (decided from the observed history), after a scheduling pass no fetch whose chunk is held / manifest expired / attempts exhausted; finally nothing pending; distinct = sequence hash",
  [H("main", "h_node2", 2000, 200000, hprop="C24")], [A_SAN, A_VCLK, "in-flight is read from the node's pending table (hooked state); only failed attempts count towards the attempt limit (docs: 'cap on retries')"],
  {"fetch.request-frames": 2000, "fetch.backoff-delays-checked": 2000, "fetch.reannounce-of-in-flight-fetch": 200, "fetch.termination-checks": 3000, "fetch.chunk-arrivals": 300, "fetch.providers-gone-away": 300})

P("C34", "exploration",
  "case = real Node with the STUN test hook returning an address at every IPv4 prefix boundary +-1, random IPv4/IPv6, IPv4-mapped IPv6 and special IPv6 ranges; start_transport(0), then config().advertised_endpoints (non-manual) and the 'transport' hints of a stored manifest; "
  "all modes x allow_private x control hosts x manual endpoints; oracle = independent classifier of the statement's list on inet_pton bytes; mode off => nothing auto-discovered; warn+conflict => withheld; routable address in mode on must be published; distinct = (address, mode, allow_private, control host)",
  [H("main", "h_node2", 3000, 300000, hprop="C34")], [A_SAN, "NatTraversalManager::TestHooks::stun_override (existing repository test hook) supplies the discovered address"],
  {"advertise.cases": 3000, "advertise.stun-address-nonroutable": 1000, "advertise.must-publish-cases": 100})

P("C25", "exploration",
  "case = stepped history (the harness owns the event loop and chooses which ready socket is served next) of 10..70 REGISTER / re-REGISTER (also while claimed) / CONNECT (self, unknown, claimed; split across writes) / identity (split) / data / close operations from 2..6 real TCP clients over 1..3 peer ids; "
  "every data byte belongs to a unique token <client:seq>; after each served event: bytes queued to a session must come from its symmetric Bridged partner, partner links symmetric, a claimed session is not in the registry; at the end: tail bursts on live bridges arrive complete, in order and nowhere else, "
  "token streams in send order, closing one side gives the other EOF; distinct = operation-sequence hash.  Second part (threaded): the real EventLoop::run thread (epoll) serves 1..4 target, 1..6 connector and 0..2 garbage client threads "
  "(competing connectors, bursts larger than the socket buffers, abrupt closes); black-box oracle on what each connection received: bytes of at most one sender, only of a connector/target pair whose CONNECT was answered OK, BEGIN+identity first, "
  "a prefix of what the partner sent, and complete once the loop is joined and leftover events are served single-threaded",
  [H("stepped", "h_relay", 3000, 200000, hprop="C25"), H("threaded", "h_relay", 64, 6000, hprop="C25t", qworkers=8)], [A_SAN, "bridge facts (state, partner) are read from the server's session objects; loopback TCP delivery is awaited with FIONREAD/poll, reads are exact-count"],
  {"relay.forwarding-steps-observed": 1000, "delivery.bridge-directions-checked": 300, "disconnect.bridge-teardowns-checked": 150, "ops.re-register-while-claimed": 100,
   "threaded.runs": 60, "threaded.bridges-observed": 20, "threaded.complete-directions-checked": 20})

P("C26", "exploration",
  "case = stepped run of 1..6 TCP clients sending partial lines, every prefix of valid dialogue pieces, 1 MiB lines without newline, CRLF, NUL/binary, malformed commands, identity fragments of 0..32 bytes, then leaving in random order (graceful FIN or RST); "
  "oracle after stepping to quiescence: sessions_ and registered_ empty, /proc/self/fd back to the pre-client set, the server still accepts and answers a new client, no sanitizer report; distinct = operation-sequence hash.  Second part (threaded): the same release oracle after a run in which the real "
  "EventLoop::run thread served concurrent target / connector / garbage client threads (the path through epoll and the registered callbacks, which the stepped part bypasses)",
  [H("stepped", "h_relay", 2000, 100000, hprop="C26"), H("threaded", "h_relay", 64, 6000, hprop="C26t", qworkers=8)], [A_SAN],
  {"release.all-clients-left": 1500, "release.post-run-probes": 1500, "streams.huge-lines": 300, "streams.abrupt-resets": 500, "threaded.runs": 60})

P("C27", "exploration",
  "case = in-process ControlServer + Node with a random control token; 10 raw requests drawn from {STORE, FETCH STREAM:client, FETCH OUT:<path>, STOP} x token {absent, wrong, proper prefix, proper suffix, case-changed, extra whitespace, empty, doubled, exact} x shuffled header order, one request in three with header names / command word / stream mode in another case (held and foreign manifests); "
  "oracle: without the exact token STATUS:ERROR with an *UNAUTH* code, derived-state snapshot unchanged, no file at <path>, stop callback not invoked, transport not stopped, PING still answered; with the exact token the request succeeds; distinct = (command, variant) sequence",
  [H("main", "h_control", 300, 20000, hprop="C27")], [A_SAN, A_VCLK, "the daemon's STOP effect is observed through the stop callback and ControlServer's transport_stopped_ flag (TU inclusion)"],
  {"requests.unauthorised": 1500, "requests.authorised-expected-to-succeed": 60, "requests.authorised-stop": 50})

P("C28", "exploration",
  "case%4 selects: payload cap (declared lengths cap+1 .. 2^64+ with NO body byte sent: the refusal must still arrive; cap and below accepted); TTL window (min-1/min/max/max+1/0/negative/huge/malformed/absent; also the control-plane half of C02); "
  "store PoW (valid, other nonce, nonce for a shorter payload, for another filename, missing, malformed; reference = lz_ref(repository digest of (sha256(body), size, sanitised name)) >= d); "
  "rate limit without a token (10..50 STOREs or streamed FETCHes from one address with fresh/empty/same TOKEN or other headers, one STORE in five carrying a TTL the daemon refuses, virtual time steps 0..31 s; <= 6 / <= 12 accepted in any 30 s); distinct = scenario x parameter sequence",
  [H("main", "h_control", 400, 30000, hprop="C28")], [A_SAN, A_VCLK, A_OSSL],
  {"size.oversized-declarations": 150, "ttl.out-of-window-requests": 150, "ttl.in-window-requests": 100, "pow.invalid-proofs": 150, "pow.valid-proofs": 30, "rate.refused": 20, "rate.refused-for-another-reason": 100})

P("C29", "exploration",
  "case = daemon state with 0..40 chunks, 0..4 advertised endpoints, 0..3 bootstrap nodes, 0..3 warnings; the repository's own ControlClient sends LIST / DEFAULTS / STATUS / DIAGNOSTICS / STORE / FETCH to the in-process server; "
  "every value the daemon produced is recomputed from node state and must equal what the client parsed (multi-line values compared line by line), payload bytes equal; distinct = (chunks, endpoints, bootstrap nodes, warnings)",
  [H("main", "h_control", 200, 20000, hprop="C29"), dict(name="eph-list", py=lambda ctx: drv_cli.c29_list(ctx), targets=["ephemeralnet", "ephemeralnet_relay", "mtool"])],
  [A_SAN, A_VCLK, "part eph-list: real `eph serve` + `eph store` x N + `eph list`, N ids must be printed"],
  {"fields.compared": 3000, "commands.LIST": 200, "list.entries-expected": 300, "list.cli-runs": 2})

P("C35", "exploration",
  "part control: 8 hostile connections per case to the in-process ControlServer (header without colon, 16 KiB+ lines, no newline at all, PAYLOAD-LENGTH variants, empty / huge / unwritable OUT:, garbage manifests, unknown commands, binary, truncated payloads, 2000 headers, CRLF), client closing with or without reading the reply, SIGPIPE left at its default as in `eph serve`; "
  "after every hostile connection an honest PING must be answered; part transport (h_transport): raw TCP peer before and after a genuine handshake; any sanitizer report, terminate or fatal signal is a violation; distinct = hostile-kind sequence",
  [H("control", "h_control", 400, 30000, hprop="C35c"), H("transport", "h_transport", 120, 8000, hprop="C35t", qworkers=8),
   dict(name="daemon", py=lambda ctx: drv_cli.c35_daemon(ctx), targets=["ephemeralnet", "ephemeralnet_relay", "mtool"])],
  [A_SAN, "bounded progress: an honest client / peer must be served within the watchdog (25 s / 20 s) while a silent or half-sent connection is open"],
  {"control.hostile-connections": 3000, "control.honest-pings-served": 3000, "control.stall-probes": 2, "transport.post-handshake-hostile-messages": 800, "transport.adversarial-manifest-then-chunk": 200,
   "transport.honest-handshakes-served": 200, "transport.stall-probes": 2, "daemon.runs": 1, "daemon.hostile-connections": 20})

P("C14", "exploration",
  "case%3: (0) two real nodes over loopback, burst of 1..200 messages of sizes 0/1/63/64/65/.../3000; (1) messages around the limit: 1 MiB-1, exactly 1 MiB (must arrive), 1 MiB+1 and 2 MiB (send must fail, nothing may arrive); receiver handler log compared with the sender log (count, order, SHA-256, length); "
  "(2) the harness as a raw TCP peer after a genuine handshake: every frame the node emits is nonce|len|ct with ct == reference ChaCha20(key, nonce, payload), nonces pairwise distinct, no plaintext on the wire; hand-made frames are delivered; a header announcing > 1 MiB (body never sent) must end the session; distinct = (mode, size sequence).  Second part (concurrent): 2..4 threads of node A send 3..12 payloads each (0..64 B, 1..60 KB, 200 KB..1 MiB) to B at the same time, "
  "B's handler delayed 0..3 ms per message so the socket fills; oracle: every payload delivered exactly once and unchanged, per-sender order kept, nothing else delivered",
  [H("main", "h_transport", 45, 3000, hprop="C14", qworkers=8), H("concurrent", "h_transport", 24, 2000, hprop="C14m", qworkers=8)], [A_SAN, A_OSSL, "real loopback TCP; a delivery wait that exceeds the 30 s watchdog is reported as loss"],
  {"sessions.messages-delivered": 500, "sessions.exactly-1MiB-sends": 10, "sessions.oversized-sends": 10, "wire.frames-observed": 100, "wire.oversized-length-announcements": 10,
   "concurrent.node-pairs": 20, "concurrent.sends": 200})

P("C39", "exploration",
  "case = two real nodes with a live loopback session and a rotation interval from {5,6,10,60,300} s under the offset virtual clock: first tick both before any rotation is due (keys equal, probe messages flow both ways), then jump to interval-50ms / +1ms / +random / 2x interval, "
  "tick A and B in a chosen order with 0 / 1 / 10 / 500 / 999 ms or > interval between the two ticks; at each observation point: keys equal (and probes delivered), or the session is closed on both sides; distinct = (interval, jump, order, delta)",
  [H("main", "h_transport", 40, 3000, hprop="C39", qworkers=8), H("identical-instants", "h_node2", 400, 60000, hprop="C39f")],
  [A_SAN, "virtual time = real + offset; node threads keep running", "second part: frozen virtual clock, 2..4 nodes (a hub with 1..3 sessions established up to 1.5 intervals apart) all ticked at identical clock readings; "
   "this is the part of the property that holds on the tree (the rotated key is derived from the rotating node's clock reading, see the open finding): every rotation leaves both ends of every session on one key"],
  {"rotation.schedules": 30, "rotation.observations.before-rotation-due": 30, "rotation.probes": 30, "rotation.identical-instant-ticks": 2000, "rotation.key-changes-observed": 500})

import post_race  # noqa: E402

P("C36", "exploration",
  "case = one repetition of a daemon-shaped process under ThreadSanitizer with the thread roles and locking discipline of `eph serve`: ControlServer thread (handlers take the node mutex), tick loop (takes the node mutex; virtual time jumps so cleanup and key rotation run), "
  "transport accept thread and per-session reader threads; 2..4 real peer nodes connect / re-connect, announce, push chunks, request, ack concurrently with 4 control-client threads issuing STORE / FETCH / LIST / STATUS / DEFAULTS / DIAGNOSTICS, with sched_yield / short sleeps between harness operations; "
  "every TSan report is classified by owner object family or function pair; descriptor life-cycle reports (close vs blocked recv, Session::socket) are counted but out of scope; distinct = repetition.  Second part: the real `eph serve` (tsan build) for 7 s (quick) / 8 x 12 s (thorough) with key rotation every 5 s, "
  "2..3 `mtool peer` processes (handshake, connect / re-connect, announce with assigned shards, push chunks, request, ack) and 4 raw control clients (STORE / FETCH stream / LIST / STATUS / DEFAULTS / DIAGNOSTICS / METRICS); the daemon's TSan log is classified the same way",
  [H("main", "h_race", 8, 240, flavour="tsan", qworkers=8, tworkers=8, post=post_race.post_c36, params={"run_ms": 1500}),
   dict(name="daemon", py=lambda ctx: drv_cli.c36_daemon(ctx), flavour="tsan", targets=["ephemeralnet"], also_build={"asan": ["mtool"]})],
  ["the second part runs the real `eph serve` binary of the tsan build (serve loop of src/main.cpp as shipped) with `mtool peer` processes (real Nodes) and raw control clients", "ThreadSanitizer (g++ -fsanitize=thread) sees only the interleavings that occurred and only synchronisation it intercepts", "the daemon shape (who takes node_mutex) is copied from src/main.cpp by hand"],
  {"race.repetitions": 5, "race.overlap.tick-x-peer": 20, "race.overlap.control-x-peer": 20, "race.peer-ops": 100, "race.control-ops": 60,
   "daemon36.runs": 1, "daemon36.control-ops": 20, "daemon36.peer-ops": 50})

import drv_cli  # noqa: E402

CLI_TARGETS = ["ephemeralnet", "ephemeralnet_relay", "mtool"]

P("C30", "exploration",
  "case = one black-box run of the sanitizer-built `eph fetch` where exactly one discovery path exists (control hint, control:// fallback, local daemon via --control-port, transport hint to a real Node whose stored ciphertext was overwritten; relay hint in the thorough tier) "
  "and the endpoint on that path answers {the payload, truncated, extended, other bytes of equal length, empty, ciphertext of another payload}, and on the control paths a manifest whose chunk id is not its content hash {the payload, bytes hashing to the chunk id}; oracle: an output file exists => sha256(file) == manifest content hash; honest bytes must produce the file (non-vacuity); distinct = (path, response, size, outcome)",
  [dict(name="cli", py=drv_cli.c30, targets=CLI_TARGETS)], [A_SAN, "scripted control endpoints are operated by the harness; lying peers are real Nodes (mtool liar)"],
  {"fetch.runs": 20, "fetch.honest-successes": 4, "fetch.dishonest-runs": 10, "fetch.manifests-with-caller-chosen-chunk-id": 4})

P("C31", "exploration",
  "part cli: black-box `eph fetch <manifest with hostile filename metadata>` into a directory (new directory with trailing slash / existing directory / --fetch-default-dir) with the cwd inside a sandbox; the whole sandbox tree is diffed: exactly one new regular file, a direct child of the chosen directory, "
  "name without separators / control / reserved characters and not . or ..; names include hostile pieces at the start / middle / end / as the extension of fillers around and beyond the 255-byte cap; part node: Node::store_chunk with the same name generator: the recorded manifest filename obeys the same predicate or is absent; distinct = (name, mode)",
  [dict(name="cli", py=drv_cli.c31, targets=CLI_TARGETS), H("node", "h_node2", 1500, 150000, hprop="C31n")], [A_SAN],
  {"names.cli-runs": 50, "names.hostile-metadata-neutralised": 15, "names.stores": 20000, "names.recorded": 5000})

P("C32", "exploration",
  "case = one generated configuration: for 14 observable settings a random subset of {flag, environment overlay, selected profile, parent, grand-parent} sets it with layer-specific, mutually valid values; YAML or JSON; profile chosen by --profile or by the environment; `eph ... serve` is started on free ports and DEFAULTS (plus a STORE for the token) is read; "
  "expected = value of the highest-precedence layer that sets it, else the built-in default; every 5th case is a broken graph (cycle, self-cycle, missing parent / profile / environment): the process must exit non-zero with E_CONFIG_* within 20 s; distinct = (assignment, depth, env, format)",
  [dict(name="cli", py=drv_cli.c32, targets=CLI_TARGETS)], [A_SAN, "alias spellings of one setting are not mixed across layers"],
  {"config.daemons-probed": 20, "config.settings-compared": 300, "config.error-cases": 5})

NOT_APPLICABLE = {}
HOOK_COMMITS = []

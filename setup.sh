#!/bin/sh
# Builds every flavour's harnesses from /repo's working tree, offline.
cd "$(dirname "$0")" || exit 2
exec python3 lib/setup_build.py

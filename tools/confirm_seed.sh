#!/bin/bash
# Confirms a seeded change in its scratch worktree: builds with the patch, runs the pinned suite,
# runs the demonstration with and without the patch.  usage: confirm_seed.sh <ID> (uses /tmp/seed_<ID>, /tmp/seed_<ID>_out)
ID=$1
W=/tmp/seed_$ID
O=/tmp/seed_${ID}_out
cd $W || exit 2
rm -rf _build; git checkout -q -- . && git clean -fdq
git apply $O/patch.diff || { echo "CONFIRM $ID: patch does not apply"; exit 1; }
cmake -G Ninja -S . -B _build -DCMAKE_BUILD_TYPE=RelWithDebInfo >/dev/null
ninja -C _build -k 0 >/tmp/seed_${ID}_build.log 2>&1
ctest --test-dir _build -j4 --timeout 900 >/tmp/seed_${ID}_ctest.log 2>&1
passed=$(grep -c ' Passed ' /tmp/seed_${ID}_ctest.log)
# tests use fixed ports; rerun failures once serially (other worktrees may be testing at the same time)
if [ "$passed" -lt 46 ]; then ctest --test-dir _build --rerun-failed --timeout 900 >/tmp/seed_${ID}_ctest2.log 2>&1; passed=$((passed + $(grep -c ' Passed ' /tmp/seed_${ID}_ctest2.log))); fi
echo "CONFIRM $ID: ctest passed=$passed with the change"
build_demo() {
  if [ -f $O/demo.cpp ]; then
    # the demo's header comment gives its build line (some demos compile daemon / relay sources of the tree in)
    # optional per-seed files: demo.buildenv (shell assignments the build line refers to), demo.args (arguments of the demo)
    bash -c "true $(cat $O/demo.buildenv 2>/dev/null | sed 's/^/; /'); $(/verif/tools/demo_build_cmd.py $O/demo.cpp /tmp/seed_${ID}_demo)" 2>/tmp/seed_${ID}_demo_build.log || { echo "demo build failed"; tail -5 /tmp/seed_${ID}_demo_build.log; return 98; }
    # exit 0 = property held, 1 = violated; anything else is the demo's own trouble (fixed ports clash with other jobs): retry
    for try in 1 2 3; do timeout 600 /tmp/seed_${ID}_demo $(cat $O/demo.args 2>/dev/null) >/tmp/seed_${ID}_demo.out 2>&1; rc=$?; [ $rc -le 1 ] && break; sleep 7; done; return $rc
  elif [ -f $O/demo.sh ]; then
    timeout 600 bash $O/demo.sh $W/_build/eph >/tmp/seed_${ID}_demo.out 2>&1; return $?
  fi
  return 99
}
build_demo; with=$?
git apply -R $O/patch.diff
ninja -C _build -k 0 >/dev/null 2>&1
build_demo; without=$?
echo "CONFIRM $ID: demo exit with change=$with, without change=$without"
rm -rf _build /tmp/seed_${ID}_demo
if [ "$passed" -ge 46 ] && [ "$with" -ne 0 ] && [ "$without" -eq 0 ]; then echo "CONFIRM $ID: OK"; exit 0; fi
echo "CONFIRM $ID: NOT CONFIRMED"; exit 1

#!/bin/sh
# Pinned suite with the hook guard OFF (the repository's own build never defines EPHEMERALNET_VERIF).
# tests/cli_fetch_dir.cpp does not compile in the pinned tree (not among the 46 baseline tests), hence -k 0.
set -u
cmake -G Ninja -S /repo -B /repo/_build -DCMAKE_BUILD_TYPE=RelWithDebInfo >/dev/null || exit 2
ninja -C /repo/_build -k 0 >/var/tmp/verif_repo_build.log 2>&1
ctest --test-dir /repo/_build -j8 --timeout 900 2>&1 | tee /var/tmp/verif_repo_ctest.log | tail -15
passed=$(grep -c ' Passed ' /var/tmp/verif_repo_ctest.log)
echo "baseline: $passed tests passed (46 expected; EphemeralNet.CLIFetchDir is not part of the baseline)"
[ "$passed" -ge 46 ]

#!/usr/bin/env python3
"""adopt_seed.py <ID> <name> <property> <needs...>: copies a confirmed sub-agent change from /tmp/seed_<ID>_out into /verif/seeded/<name>/."""
import json, os, shutil, sys
ID, name, prop = sys.argv[1:4]
needs = " ".join(sys.argv[4:])
src = "/tmp/seed_%s_out" % ID
dst = "/verif/seeded/%s" % name
os.makedirs(dst, exist_ok=True)
for f in os.listdir(src):
    if f in ("patch.diff", "demo.cpp", "demo.sh", "notes.md"):
        shutil.copy(os.path.join(src, f), os.path.join(dst, f))
meta = {"property": prop, "checks": [prop], "origin": "independent sub-agent given only the property text and a scratch worktree",
        "needs_to_manifest": needs,
        "confirmed": "tools/confirm_seed.sh %s: patch applies, builds, 46 pinned tests pass with the change, demonstration exits non-zero with the change and zero without it" % ID,
        "detected_by": []}
json.dump(meta, open(os.path.join(dst, "meta.json"), "w"), indent=1)
print("adopted", dst)

#!/usr/bin/env python3
"""Apply one seeded change to /repo, run the checks of the property it breaks, undo it.

usage: tools/run_seeded.py <seeded-dir> [--tier quick|thorough] [--props C01,C05]
Evidence and replays of these runs go to a scratch directory, never to /verif/evidence."""
import json
import os
import subprocess
import sys
import tempfile

VERIF = os.path.dirname(os.path.dirname(os.path.abspath(__file__)))


def main():
    d = os.path.abspath(sys.argv[1])
    tier = "quick"
    props = None
    args = sys.argv[2:]
    for i, a in enumerate(args):
        if a == "--tier":
            tier = args[i + 1]
        if a == "--props":
            props = args[i + 1].split(",")
    meta = json.load(open(os.path.join(d, "meta.json")))
    props = props or meta.get("checks") or [meta["property"]]
    patch = os.path.join(d, "patch.diff")
    if subprocess.run(["git", "-C", "/repo", "status", "--porcelain", "--untracked-files=no"], capture_output=True, text=True).stdout.strip():
        print("refusing: /repo has local modifications")
        return 2
    subprocess.check_call(["git", "-C", "/repo", "apply", patch])
    scratch = tempfile.mkdtemp(prefix="seeded-", dir="/var/tmp")
    env = dict(os.environ, VERIF_EVIDENCE_DIR=os.path.join(scratch, "evidence"), VERIF_REPLAY_DIR=os.path.join(scratch, "replays"))
    caught = {}
    try:
        for p in props:
            r = subprocess.run([os.path.join(VERIF, "check"), p, tier], cwd=VERIF, env=env, capture_output=True, text=True)
            keys = [l for l in r.stdout.splitlines() if l.startswith("VIOLATION")]
            caught[p] = (r.returncode, keys)
            print("%s %s -> exit %d" % (p, tier, r.returncode))
            for k in keys[:6]:
                print("   ", k[:200])
            if r.returncode == 2:
                print("\n".join(l for l in r.stdout.splitlines() if "INCONCLUSIVE" in l)[:600])
    finally:
        subprocess.check_call(["git", "-C", "/repo", "checkout", "--", "."])
        subprocess.run(["rm", "-rf", scratch])
    ok = any(rc == 1 for rc, _ in caught.values())
    if "--record" in sys.argv:
        import re
        meta["detected_by"] = [{"check": "./check %s %s" % (p, tier), "exit": rc,
                                "violation_keys": sorted(set(re.search(r"key=(\S+)", k).group(1) for k in keys if "key=" in k))}
                               for p, (rc, keys) in caught.items()]
        meta["ran"] = "git -C /repo apply patch.diff; " + "; ".join("./check %s %s" % (p, tier) for p in caught) + "; git -C /repo checkout -- ."
        json.dump(meta, open(os.path.join(d, "meta.json"), "w"), indent=1)
    print("SEEDED %s: %s" % (os.path.basename(d), "caught" if ok else "MISSED"))
    return 0 if ok else 1


if __name__ == "__main__":
    sys.exit(main())

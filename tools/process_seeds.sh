#!/bin/bash
# process_seeds.sh <listfile>: each line "ID|name|property|needs": confirm in the scratch worktree, adopt into /verif/seeded, run the checks against it.
while IFS='|' read -r ID NAME PROP NEEDS; do
  [ -z "$ID" ] && continue
  if ! grep -q "CONFIRM $ID: OK" /var/tmp/confirm_*.log 2>/dev/null; then
    /verif/tools/confirm_seed.sh $ID 2>&1 | grep CONFIRM >> /var/tmp/confirm_queue.log
  fi
  if grep -q "CONFIRM $ID: OK" /var/tmp/confirm_*.log; then
    /verif/tools/adopt_seed.py $ID "$NAME" $PROP "$NEEDS"
    (cd /verif && tools/run_seeded.py seeded/$NAME --record 2>&1 | tail -4)
  else
    echo "SEED $ID not confirmed"; grep "CONFIRM $ID" /var/tmp/confirm_*.log | tail -3
  fi
done < "$1"

#!/bin/bash
# try_seed.sh <patch.diff> <PROP>...: early feedback outside /repo: applies the patch in the scratch worktree /tmp/fix_try,
# runs the quick checks against it with scratch evidence/replay dirs, restores the worktree.
P=$1; shift
cd /tmp/fix_try || exit 2
git checkout -q -- . && git checkout -q --detach $(git -C /repo rev-parse HEAD) && git apply "$P" || { echo "patch does not apply"; exit 2; }
cd /verif
for prop in "$@"; do
  VERIF_REPO=/tmp/fix_try VERIF_EVIDENCE_DIR=/var/tmp/ev_try VERIF_REPLAY_DIR=/var/tmp/ev_try ./check $prop quick 2>&1 | grep "VIOLATION\|INCONCLUSIVE\|$prop quick:" | cut -c1-260
done
git -C /tmp/fix_try checkout -q -- .

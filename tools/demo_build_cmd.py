#!/usr/bin/env python3
"""demo_build_cmd.py <demo.cpp> <out-exe>: prints the g++ command given in the demo's header comment
(first `//   g++ ...` line with its backslash continuations), output path replaced, -I. -Itests added."""
import re, sys
src, out = sys.argv[1], sys.argv[2]
lines = open(src, errors="replace").read().split("\n")[:60]
cmd = None
for i, l in enumerate(lines):
    m = re.match(r"^\s*//\s*(g\+\+ .*)$", l)
    if not m:
        continue
    parts = [m.group(1)]
    j = i
    while parts[-1].rstrip().endswith("\\") and j + 1 < len(lines):
        parts[-1] = parts[-1].rstrip()[:-1]
        j += 1
        parts.append(re.sub(r"^\s*//", "", lines[j]))
    cmd = " ".join(p.strip() for p in parts)
    break
if cmd is None:
    cmd = "g++ -std=c++20 -O1 -g -Iinclude -fno-access-control %s _build/libephemeralnet_core.a -lcurl -lpthread -o X" % src
cmd = re.sub(r"-o\s+\S+", "-o " + out, cmd)
if " -o " not in cmd:
    cmd += " -o " + out
cmd = cmd.replace("g++ ", "g++ -I. -Itests ", 1)
print(cmd)

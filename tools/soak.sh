#!/bin/bash
# soak.sh <repo> <tier> <seed>... : run every check once per seed against <repo>, evidence and replays kept out of /verif.
# Prints one line per (seed, property): rc and wall seconds.  Anything but rc=0 on an unchanged tree needs attention.
REPO=$1; TIER=$2; shift 2
cd /verif || exit 2
for s in "$@"; do
  for p in $(python3 -c "import sys; sys.path.insert(0,'lib'); import props; print(' '.join(sorted(props.PROPS)))"); do
    t0=$(date +%s)
    VERIF_REPO=$REPO VERIF_SEED=$s VERIF_EVIDENCE_DIR=/var/tmp/soak_ev VERIF_REPLAY_DIR=/var/tmp/soak_replays VERIF_KEEP_RUN=1 \
      ./check $p $TIER > /var/tmp/soak_out.$p.$s.log 2>&1
    rc=$?
    echo "SOAK seed=$s prop=$p tier=$TIER rc=$rc wall=$(( $(date +%s) - t0 ))s"
    [ $rc -eq 0 ] && rm -f /var/tmp/soak_out.$p.$s.log
  done
done

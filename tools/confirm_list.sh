#!/bin/bash
# confirm_list.sh <listfile>: confirmation step only (own scratch worktrees, never touches /repo)
while IFS='|' read -r ID NAME PROP NEEDS; do
  [ -z "$ID" ] && continue
  grep -q "CONFIRM $ID: OK" /var/tmp/confirm_*.log 2>/dev/null && continue
  /verif/tools/confirm_seed.sh $ID 2>&1 | grep CONFIRM >> /var/tmp/confirm_queue_$(basename $1 .txt).log
done < "$1"

#!/usr/bin/env python3
"""Prints the markdown table of DESIGN.md §9 from seeded/*/meta.json."""
import glob, json, os
rows = []
for d in sorted(glob.glob(os.path.join(os.path.dirname(os.path.abspath(__file__)), "..", "seeded", "*"))):
    mp = os.path.join(d, "meta.json")
    if not os.path.exists(mp):
        continue
    m = json.load(open(mp))
    det = m.get("detected_by") or []
    caught = [x for x in det if x.get("exit") == 1]
    keys = []
    for x in caught:
        for k in x.get("violation_keys", []):
            if k not in keys:
                keys.append(k)
    checks = ", ".join(sorted({x["check"].replace("./check ", "") for x in caught})) or "-"
    shown = "; ".join("`%s`" % k for k in keys[:2]) + (" (+%d more)" % (len(keys) - 2) if len(keys) > 2 else "")
    rows.append("| `%s` | %s | %s | %s |" % (os.path.basename(d), m.get("needs_to_manifest", "").replace("|", "\\|")[:230], checks, shown if caught else "**missed**"))
print("| seeded change | needs, in order to manifest | caught by | violation keys |")
print("|---|---|---|---|")
print("\n".join(rows))

#!/bin/bash
# retest_seed.sh <ID>: after confirm_seed.sh counted fewer than 46 passes on a loaded machine (the pinned tests use fixed
# ports and several scratch worktrees were testing at once): rebuild with the change and run the tests that failed, one at a time.
ID=$1
W=/tmp/seed_$ID
O=/tmp/seed_${ID}_out
cd $W || exit 2
names=$(grep -h "^\s*[0-9]* - EphemeralNet\." /tmp/seed_${ID}_ctest.log /tmp/seed_${ID}_ctest2.log 2>/dev/null | grep -v "Not Run" | sed 's/.*- \(EphemeralNet\.[A-Za-z0-9_]*\).*/\1/' | sort -u | grep -v CLIFetchDir)
[ -z "$names" ] && { echo "RETEST $ID: nothing to re-run"; exit 2; }
rm -rf _build; git checkout -q -- . && git clean -fdq
git apply $O/patch.diff || exit 1
cmake -G Ninja -S . -B _build -DCMAKE_BUILD_TYPE=RelWithDebInfo >/dev/null
ninja -C _build -k 0 >/dev/null 2>&1
ok=1
for t in $names; do
  pass=0
  for try in 1 2 3; do ctest --test-dir _build -R "^$t\$" --timeout 900 >/tmp/seed_${ID}_retest.log 2>&1 && { pass=1; break; }; sleep 5; done
  echo "RETEST $ID: $t $( [ $pass = 1 ] && echo passed || echo FAILED ) with the change (try $try)"
  [ $pass = 1 ] || ok=0
done
git checkout -q -- .; rm -rf _build
[ $ok = 1 ] && echo "RETEST $ID: OK" || echo "RETEST $ID: NOT OK"
